"""Plain unit tests (no explorer) replaying the minimal counter-example of every defect the checks found.

Run:  cd /verif && PAPPULAB_LOCALCIDER_VERIF=1 /venv/bin/python -m pytest -q -p no:cacheprovider tests/test_findings.py
Fixed defects are asserted to stay fixed; the two known findings are marked xfail (strict), so that
a repair shows up as an XPASS failure and the known-findings file gets updated.
"""
import os
import sys

import pytest

sys.path.insert(0, os.environ.get("VMC_REPO", "/repo"))
os.environ.setdefault("MPLBACKEND", "Agg")

from localcider.sequenceParameters import SequenceParameters as SP  # noqa: E402
from localcider.backend.sequence import Sequence  # noqa: E402
from localcider import plots  # noqa: E402


def test_F_DMAXSEQ0_uncharged_permutant():
    val, perm = SP("GGSG").get_deltaMax(True)
    assert val == 0 and sorted(perm) == sorted("GGSG")


def test_F_DMAXCACHE_permutant_after_kappa():
    o = SP("SKEKTGKEYEKE")
    o.get_kappa()
    val, perm = o.get_deltaMax(True)
    assert isinstance(perm, str) and sorted(perm) == sorted("SKEKTGKEYEKE")
    assert abs(SP(perm).get_delta() - val) < 1e-12


def test_F_NCPRWIN_window_longer_than_sequence():
    with pytest.raises(Exception):
        SP("KEGKE").get_linear_NCPR(6)


def test_F_PHOSRANGE_positions_outside_sequence_ignored():
    o = SP("KKS")
    o.set_phosphosites(0)
    o.set_phosphosites(-2)
    o.set_phosphosites(4)
    o.set_phosphosites(-5)
    assert o.get_phosphosites() == []
    o.set_phosphosites([4, 3, 0])
    assert o.get_phosphosites() == [3]


def test_F_SWAPRES_pair_swap_runs():
    c = Sequence("KEGKEG").swapRes(0, 1)
    assert c.seq == "EKGKEG" and list(c.chargePattern) == [-1, 1, 0, 1, -1, 0]


def test_F_SAMPLESET_charge_swap_runs():
    c = Sequence("KEGKEG").swapRandChargeRes()
    assert sorted(c.seq) == sorted("KEGKEG")


def test_F_PLOTARG_getfig_returns_figure_with_title():
    import matplotlib.pyplot as plt
    plt.close("all")
    r = SP("KKEEGGSSPP").show_phaseDiagramPlot(title="T", getFig=True)
    assert r is not None
    ax = r.gcf().axes[0]
    assert ax.get_title() == "T" and tuple(ax.get_ylim()) == (0.0, 1.0)
    plt.close("all")


def test_F_PLOTLABEL_default_labels_for_several_sequences():
    import matplotlib.pyplot as plt
    plt.close("all")
    r = plots.show_multiple_phasePlot([.33, .08], [.33, 0.], getFig=True)
    assert len(r.gcf().axes[0].collections) == 2
    plt.close("all")


@pytest.mark.xfail(strict=True, reason="known finding F-KAPPA: heuristic delta-max underestimates the true maximum")
def test_F_KAPPA_known_kappa_above_one():
    assert 0 <= SP("KEEEEK").get_kappa() <= 1


@pytest.mark.xfail(strict=True, reason="known finding F-FROZEN: block swap ignores the frozen set")
def test_F_FROZEN_block_swap_keeps_frozen_positions():
    import random
    random.seed(1)
    s = Sequence("KRKRDEGS")
    frozen = set(range(8))
    for _ in range(20):
        c = s.permute_block_swap(frozen)
        assert c.seq == s.seq
