"""C06 - Omega and kappa_X are kappa of the recoded sequence; group normalisation and validation."""
import itertools

from .. import core, spaces
from ..refmodel import tables as T

PROP = "C06"
TOL = (1e-12, 1e-15)
LETTERS = "KEPG"
OMEGA_X = "PEDKR"
INVALID = ["B", "X", "1", "", "AA", 5, "*", " ", "GLU", "Ala", "lys", "KR", "+", "0"]


def SP(seq):
    from localcider.sequenceParameters import SequenceParameters
    return SequenceParameters(seq)


def recode3(seq, g1, g2):
    return "".join("E" if a in g1 else ("K" if a in g2 else "G") for a in seq)


def eq(a, b):
    return core.close(a, b, *TOL)


def mixcase(g, flip):
    return [x.lower() if (i + flip) % 2 == 0 else x for i, x in enumerate(g)]


def check_word(seq, case):
    """Identities between Omega / kappa / kappa_X and every assignment of the letters K,E,P,G to the two groups."""
    out = []
    calls = 0

    def v(key, what, **kw):
        out.append({"key": key, "what": what, "case": dict(case, seq=seq, **kw)})
    o = SP(seq)
    try:
        om = o.get_Omega()
        oms = o.get_Omega_sequence()
        kx = SP(seq).get_kappa_X(list(OMEGA_X))
        ref = SP("".join("E" if a in OMEGA_X else "K" for a in seq)).get_kappa()
        k = SP(seq).get_kappa()
        k2 = SP(seq).get_kappa_X(['E', 'D'], ['K', 'R'])
        calls += 6
    except Exception as e:  # noqa
        v("exception", "Omega/kappa_X raised %r on %s" % (e, seq))
        return out, calls
    if not eq(om, ref):
        v("omega-not-kappa-of-recoded", "%s: get_Omega()=%r but kappa of the two-letter recoding is %r" % (seq, om, ref))
    if not eq(om, kx):
        v("omega-vs-kappaX", "%s: get_Omega()=%r but get_kappa_X(PEDKR)=%r" % (seq, om, kx))
    if not eq(k, k2):
        v("kappa-vs-kappaX", "%s: get_kappa()=%r but get_kappa_X([E,D],[K,R])=%r" % (seq, k, k2))
    exp_oms = "".join("X" if a in OMEGA_X else "O" for a in seq)
    if oms != exp_oms:
        v("omega-sequence", "%s: get_Omega_sequence()=%r, expected %r" % (seq, oms, exp_oms))
    case["omega"] = round(om, 9)
    if not case.get("assignments"):
        return out, calls
    absent = [a for a in T.AA if a not in seq]
    shared = [SP(seq), SP(seq)]      # two live objects on which ALL calls are repeated (forward / reverse order)
    shared_calls = []
    letters = case.get("letters", LETTERS)
    allassign = list(itertools.product((1, 2, 0), repeat=len(letters)))
    if case.get("slice"):
        i_, n_ = case["slice"]
        allassign = allassign[i_::n_]
    for assign in allassign:
        g1 = [l for l, a in zip(letters, assign) if a == 1]
        g2 = [l for l, a in zip(letters, assign) if a == 2]
        if not g2:
            # empty second group: the statement does not say whether this is a one- or two-group call
            if g1:
                try:
                    one = SP(seq).get_kappa_X(g1)
                    shared_calls.append((list(g1), None, one))
                    comp = [a for a in T.AA if a not in g1]
                    two = SP(seq).get_kappa_X(g1, comp)
                    calls += 2
                    if not eq(one, two):
                        v("one-group-vs-complement", "%s: kappa_X(%r)=%r but kappa_X(%r, complement)=%r" % (seq, g1, one, g1, two),
                          g1=g1)
                    exp1 = SP("".join("E" if a in g1 else "K" for a in seq)).get_kappa()
                    calls += 1
                    if not eq(one, exp1):
                        v("one-group-recoding", "%s: kappa_X(%r)=%r but kappa of the recoding is %r" % (seq, g1, one, exp1), g1=g1)
                    # case / order / padding by absent residues
                    pad = absent[:3]
                    alt = SP(seq).get_kappa_X(mixcase(list(reversed(g1)) + pad, 0))
                    calls += 1
                    if not eq(one, alt):
                        v("one-group-normalisation", "%s: kappa_X(%r)=%r changes to %r with order/case/absent-residue padding"
                          % (seq, g1, one, alt), g1=g1)
                except Exception as e:  # noqa
                    v("exception", "one-group kappa_X(%r) raised %r on %s" % (g1, e, seq), g1=g1)
            continue
        try:
            exp = SP(recode3(seq, g1, g2)).get_kappa()
            got = SP(seq).get_kappa_X(g1, g2)
            sw = SP(seq).get_kappa_X(g2, g1)
            calls += 3
        except Exception as e:  # noqa
            v("exception", "kappa_X(%r,%r) raised %r on %s" % (g1, g2, e, seq), g1=g1, g2=g2)
            continue
        case.setdefault("_vals", set()).add(round(got, 9))
        shared_calls.append((list(g1), list(g2), got))
        if not eq(got, exp):
            v("two-group-recoding", "%s: kappa_X(%r,%r)=%r but kappa of the three-letter recoding is %r" % (seq, g1, g2, got, exp),
              g1=g1, g2=g2)
        if not g1:
            sw = got   # swapped call would have an empty second group: not specified (dont-care)
        if not eq(got, sw):
            v("group-swap", "%s: kappa_X(%r,%r)=%r but swapped groups give %r" % (seq, g1, g2, got, sw), g1=g1, g2=g2)
        # three paddings by residues not in the sequence, permuted member order, mixed letter case
        pads = [(absent[:2], absent[2:4]), (absent[4:5], []), ([], absent[5:9])]
        if not case.get("allpads"):
            pads = [pads[(len(g1) + 2 * len(g2)) % 3]]
        for j, (p1, p2) in enumerate(pads):
            a1 = mixcase(list(reversed(g1)) + p1, j)
            a2 = mixcase(p2 + list(reversed(g2)), j + 1)
            try:
                alt = SP(seq).get_kappa_X(a1, a2)
                calls += 1
            except Exception as e:  # noqa
                v("exception", "kappa_X(%r,%r) raised %r on %s" % (a1, a2, e, seq), g1=a1, g2=a2)
                continue
            if not eq(got, alt):
                v("two-group-normalisation", "%s: kappa_X(%r,%r)=%r but kappa_X(%r,%r)=%r" % (seq, g1, g2, got, a1, a2, alt),
                  g1=a1, g2=a2)
    # the same calls again on one live object each (forward and reverse order): results must not depend on earlier calls
    for o, seqcalls in ((shared[0], shared_calls), (shared[1], list(reversed(shared_calls)))):
        for g1, g2, want in seqcalls:
            try:
                got = o.get_kappa_X(g1) if g2 is None else o.get_kappa_X(g1, g2)
                calls += 1
            except Exception as e:  # noqa
                v("exception", "kappa_X(%r,%r) on a reused object raised %r (%s)" % (g1, g2, e, seq), g1=g1, g2=g2)
                continue
            if not eq(got, want):
                v("kappaX-depends-on-earlier-calls", "%s: on an object that already answered other kappa_X calls, kappa_X(%r,%r)=%r "
                  "but a fresh object gives %r" % (seq, g1, g2, got, want), g1=g1, g2=g2)
                break
    return out, calls


def splits(letters):
    s_ = sorted(letters)
    return [(s_[:i], s_[i:]) for i in range(1, len(s_))]


def check_collisions(case):
    """Histories on ONE live object built to collide on sloppy memo keys: every prefix split of a sorted letter set as a
    two-group call, the whole set as a one-group call, Omega and kappa, in several orders; plus calls in the unspecified
    domain (overlapping / identical groups) whose RESULTS are not judged but which must not disturb later specified calls."""
    seq = case["seq"]
    out = []
    calls = 0

    def v(key, what, **kw):
        out.append({"key": key, "what": what, "case": dict(case, **kw)})

    def fresh(kind, g1=None, g2=None):
        o = SP(seq)
        if kind == "omega":
            return o.get_Omega()
        if kind == "kappa":
            return o.get_kappa()
        return o.get_kappa_X(list(g1)) if g2 is None else o.get_kappa_X(list(g1), list(g2))
    plan = []
    for letters in ("DEKPR", "DEKR", "AGST", "EKPG"):
        plan.append(("kx", list(letters), None))
        for a, b in splits(letters):
            plan.append(("kx", a, b))
            plan.append(("kx", b, a))
    plan += [("omega", None, None), ("kappa", None, None), ("kx", ["E", "D"], ["K", "R"]), ("kx", ["K", "R"], None),
             ("kx", ["P", "E", "D", "K", "R"], None)]
    want = {}
    for item in plan:
        key = repr(item)
        if key not in want:
            try:
                want[key] = fresh(*item)
                calls += 1
            except Exception as e:  # noqa
                want[key] = ("EXC", type(e).__name__)
    poison = [(["D", "E", "K"], ["K", "R"]), (["E", "D"], ["E", "D"]), (["K", "R"], ["K", "R"]), (["P", "E", "D", "K", "R"], ["P"]),
              (["K", "R"], ["R"])]
    for order, with_poison in ((plan, False), (list(reversed(plan)), False), (plan[::2] + plan[1::2], True)):
        o = SP(seq)
        if with_poison:
            for g1, g2 in poison:
                try:
                    o.get_kappa_X(list(g1), list(g2))      # unspecified domain: result not judged
                    SP(seq).get_kappa_X(list(g1), list(g2))
                    calls += 2
                except Exception:  # noqa
                    pass
        for item in order:
            kind, g1, g2 = item
            try:
                calls += 1
                got = o.get_Omega() if kind == "omega" else (o.get_kappa() if kind == "kappa" else (
                    o.get_kappa_X(list(g1)) if g2 is None else o.get_kappa_X(list(g1), list(g2))))
            except Exception as e:  # noqa
                got = ("EXC", type(e).__name__)
            w = want[repr(item)]
            same = (got == w) if isinstance(w, tuple) or isinstance(got, tuple) else eq(got, w)
            if not same:
                v("depends-on-earlier-calls" + ("-after-unspecified-calls" if with_poison else ""),
                  "%s: on a reused object %s(%r,%r) returned %r but a fresh object gives %r" % (seq, kind, g1, g2, got, w),
                  call=[kind, g1, g2])
                break
        if with_poison:
            # a brand-new object after the unspecified calls: module-level state must not have been disturbed either
            for item in (("kx", ["E", "D"], ["K", "R"]), ("kx", ["K", "R"], None), ("kappa", None, None)):
                try:
                    got = fresh(*item)
                    calls += 1
                except Exception as e:  # noqa
                    got = ("EXC", type(e).__name__)
                w = want[repr(item)]
                same = (got == w) if isinstance(w, tuple) or isinstance(got, tuple) else eq(got, w)
                if not same:
                    v("depends-on-earlier-calls-after-unspecified-calls",
                      "%s: after calls with overlapping groups, a NEW object's %s(%r,%r) returns %r instead of %r"
                      % (seq, item[0], item[1], item[2], got, w), call=list(item))
    return out, calls


def check_containers(case):
    """The same groups handed over in different container types (list, tuple, set, frozenset, string, dict keys, generator,
    reversed iterator, map object): the result must not depend on the container."""
    seq = case["seq"]
    out = []
    calls = 0
    kinds = {
        "list": lambda g: list(g), "tuple": lambda g: tuple(g), "set": lambda g: set(g), "frozenset": lambda g: frozenset(g),
        "string": lambda g: "".join(g), "dict-keys": lambda g: {x: 1 for x in g}.keys(), "generator": lambda g: (x for x in g),
        "reversed": lambda g: reversed(list(g)), "map-lower": lambda g: map(str.lower, list(g)), "iter": lambda g: iter(list(g)),
    }
    for g1, g2 in ((["E", "D"], ["K", "R"]), (["K", "P"], ["E", "G"]), (["G", "S", "T"], ["D", "R", "P"])):
        try:
            want2 = SP(seq).get_kappa_X(list(g1), list(g2))
            want1 = SP(seq).get_kappa_X(list(g1))
            calls += 2
        except Exception as e:  # noqa
            out.append({"key": "exception", "what": "kappa_X(%r,%r) raised %r on %s" % (g1, g2, e, seq), "case": case})
            continue
        for k1, f1 in kinds.items():
            for k2, f2 in kinds.items():
                if k1 != "list" and k2 != "list" and k1 != k2:
                    continue
                calls += 1
                try:
                    got = SP(seq).get_kappa_X(f1(g1), f2(g2))
                except Exception as e:  # noqa
                    out.append({"key": "container-type-rejected", "what": "%s: kappa_X with groups as %s/%s raised %r" % (seq, k1, k2, e),
                                "case": dict(case, g1=g1, g2=g2, kinds=[k1, k2])})
                    continue
                if not eq(got, want2):
                    out.append({"key": "container-type-changes-result", "what": "%s: kappa_X(%r as %s, %r as %s)=%r but with lists %r"
                                % (seq, g1, k1, g2, k2, got, want2), "case": dict(case, g1=g1, g2=g2, kinds=[k1, k2])})
            calls += 1
            try:
                got = SP(seq).get_kappa_X(f1(g1))
                if not eq(got, want1):
                    out.append({"key": "container-type-changes-result", "what": "%s: kappa_X(%r as %s)=%r but with a list %r"
                                % (seq, g1, k1, got, want1), "case": dict(case, g1=g1, kinds=[k1])})
            except Exception as e:  # noqa
                out.append({"key": "container-type-rejected", "what": "%s: one-group kappa_X with the group as %s raised %r" % (seq, k1, e),
                            "case": dict(case, g1=g1, kinds=[k1])})
    return out, calls


def check_invalid(case):
    """A group containing a non-amino-acid, at every position of either group, must be rejected."""
    out = []
    calls = 0
    seq = case["seq"]
    absent = [a for a in T.AA if a not in seq]
    bases = [(["E", "D", "P"], ["K", "R"])]
    if len(absent) >= 4:
        bases.append((absent[:2], absent[2:4]))     # groups none of whose members occurs in the sequence
    bases.append(([], ["K"]))                      # the invalid member alone in its group
    for bad in INVALID:
      for base1, base2 in bases:
        for which in (1, 2, 0):
            if which == 2 and not base1:
                continue
            base = base1 if which in (1, 0) else base2
            for pos in range(len(base) + 1):
                g = base[:pos] + [bad] + base[pos:]
                args = (g,) if which == 0 else ((g, base2) if which == 1 else (base1, g))
                calls += 1
                try:
                    r = SP(seq).get_kappa_X(*args)
                except Exception:  # noqa
                    continue
                out.append({"key": "invalid-member-accepted",
                            "what": "%s: kappa_X%r accepted the non-amino-acid member %r and returned %r" % (seq, args, bad, r),
                            "case": dict(case, args=[list(a) for a in args], bad=bad)})
    return out, calls


def check_case(case):
    if case["kind"] == "invalid":
        return check_invalid(case)
    if case["kind"] == "collisions":
        return check_collisions(case)
    if case["kind"] == "containers":
        return check_containers(case)
    return check_word(case["seq"], case)


def shard(s):
    acc = core.Acc()
    for case in s:
        with core.istate(case.get("seq", "") + case["kind"]):
            v, calls = check_case(case)
        acc.states += 1
        acc.traces += 1
        acc.transitions += calls
        acc.evaluations += calls
        if case["kind"] == "word" and len(set(case["seq"])) > 1 and len(case["seq"]) >= 5:
            acc.nontrivial += 1
        acc.out((case["kind"], case.get("omega")))
        for val in case.pop("_vals", ()):
            acc.out(("kappaX", val))
        for x in v:
            acc.viol(x["key"], x["what"], x["case"])
        if case["kind"] == "word" and len(case["seq"]) == 5:
            acc.sample({"seq": case["seq"], "assignments": 81 if case.get("assignments") else 0, "api_calls": calls}, cap=1)
    return acc


def run(tier, seed, t0):
    L = 5 if tier == "quick" else 6
    cases = []
    for Lw in ([1, 2, 3, 5] if tier == "quick" else range(1, L + 1)):
        for w in spaces.shard_words(LETTERS, Lw, ""):
            cases.append({"kind": "word", "seq": w, "assignments": True, "allpads": tier != "quick"})
    # a few longer words so that kappa is defined and non-trivial in the quick tier too
    for w in ["KEPGKE", "KKEEPPGG", "PGPGKEKE", "KEKEKGPGPG", "GGGKKKEEEPPP", "GGGGGGGPGGGGGGGGKE", "KKKKKKKKKKKKKKEKKKKKKKPG",
              "GGGGGGGGGGGGGGGGGGGGGGGGGGGKEP", "EEEEEEEEEEEEEEKEEEEEEEEEEEEEEEPG"]:
        cases.append({"kind": "word", "seq": w, "assignments": True})
    # words over all six residues that carry a charge or are special-cased (D,E,K,R + G,P): window-complete (de Bruijn, every
    # ordered pair of the six letters adjacent somewhere) chunks x ALL 3^6 = 729 assignments of the six letters to the groups,
    # in 9 slices; thorough: also every 5-letter word over {D,E,K,R} x 81 assignments
    for w in spaces.window_complete_chunks("DEKRGP", 2, (13,) if tier == "quick" else (9, 13, 19)):
        for i in range(9):
            cases.append({"kind": "word", "seq": w, "assignments": True, "letters": "DEKRGP", "slice": [i, 9]})
    if tier == "thorough":
        for w in spaces.shard_words("DEKR", 5, ""):
            cases.append({"kind": "word", "seq": w, "assignments": True, "letters": "DEKR"})
    for w in spaces.shard_words(T.AA, 2, ""):
        cases.append({"kind": "word", "seq": w, "assignments": False})
    LXO = 10 if tier == "quick" else 13
    xs, os_ = "PEDKR", "GASTNQHCILMFWYV"
    for Lw in range(5, LXO + 1):
        for w in spaces.shard_words("XO", Lw, ""):
            cases.append({"kind": "word", "assignments": False,
                          "seq": "".join(xs[(i + Lw) % 5] if c == "X" else os_[(i + Lw) % 15] for i, c in enumerate(w))})
    for w in ["KEPGDRSTYA", "ACDEFGHIKLMNPQRSTVWY", "WYVTSRQPNMLKIHGFEDCA"]:
        cases.append({"kind": "word", "seq": w, "assignments": False})
        cases.append({"kind": "invalid", "seq": w})
    for w in ["GSGSEKPDRG", "GGSSGGSSGG", "KEKEK"]:
        cases.append({"kind": "invalid", "seq": w})
    for w in ["KEPGDRSTYAGS", "DKDKPEPRSTAG", "EEKKPPGGDDRRAASSTT", "KPEGSDRATKEPG"]:
        cases.append({"kind": "collisions", "seq": w})
        cases.append({"kind": "containers", "seq": w})
    cases.sort(key=lambda c: -len(c["seq"]) ** 2 * (81 if c.get("assignments") else 1))
    nsh = 16 * 8
    acc = core.pmap(shard, [cases[i::nsh] for i in range(nsh)])
    acc.merge(core.run_optimized(PROP, tier))      # the rejection battery once more under `python -O`
    return core.finish(
        PROP, tier, seed, acc, t0,
        rule="every word over {K,E,P,G} of length 1..3 and 5..%d (thorough: 1..%d; +5 longer ones) x ALL 81 assignments of those four letters to "
             "(group 1 / group 2 / neither), each with swapped groups and three paddings by absent residues with permuted member "
             "order and mixed case; window-complete (de Bruijn order 2) words over {D,E,K,R,G,P} x ALL 729 assignments of those six letters (strict sub-groups of the charge classes included; thorough: + every 5-letter word over {D,E,K,R} x 81); one-group calls vs the complementary two-group call; all those calls repeated in forward and reverse order on one reused object each (must equal the fresh-object results); every 2-residue word over the 20 amino "
             "acids, every word over {PEDKR-class, other-class} of length 5..10 (thorough 13) and three 10-20-mers for Omega == kappa(recoded) == kappa_X(PEDKR), kappa == kappa_X(ED,KR) and the Omega "
             "string; 8 invalid members at every position of either group must be rejected (also in groups none of whose valid members occurs in "
             "the sequence, and alone in their group). Collision histories on one reused object: every prefix split of the sorted letter "
             "sets DEKPR, DEKR, AGST, EKPG as two-group calls in both orders, the whole set as one group, Omega and kappa, in three orders, "
             "once after calls with overlapping/identical groups whose own results are not judged. Expected values are real "
             "get_kappa() calls on the independently recoded sequence. dont-care: overlapping groups, empty second group with "
             "the ternary reading. non-trivial = words of length>=5 with >=2 letters (shorter ones have kappa -1 by definition); quick uses one of the three paddings per assignment" % (L, L),
        bounds={"L": L, "assignments": 81, "invalid_members": [repr(x) for x in INVALID]},
        assumptions=["kappa itself is judged by C01-C03; here only the identities between entry points"])


def opt_shards(tier):
    return [(shard, [{"kind": "invalid", "seq": "KEPGDRSTYA"}, {"kind": "invalid", "seq": "GGSSGGSSGG"},
                     {"kind": "word", "seq": "KEPGKE", "assignments": True}, {"kind": "containers", "seq": "KEPGDRSTYAGS"}])]


def replay(case):
    with core.istate(case.get("seq", "") + case["kind"]):       # the same interpreter state as in the exploration
        return check_case(case)[0]
