"""C18 - the Wang-Landau run obeys the WL update rule and its outputs are self-consistent.

E3 deviation-bounded exploration of the run's random draws, lock-step with a reference WL machine
(vmc/refmodel/wl.py) fed by the guarded per-step hook in backend/wang_landau.py.
"""
import io
import math
import os
import re

import numpy as np

from .. import core
from ..engines import choice as C
from ..refmodel.wl import RefWL, Mismatch

PROP = "C18"
SEL = (0.001, 0.1, 0.4, 0.8)       # one value inside each of the four move-probability intervals
COIN = (0.25, 0.75)


class MemFS:
    def __init__(self):
        self.files = {}

    def open(self, name, mode="r", *a, **k):
        fs = self

        class F(io.StringIO):
            def close(self_):
                fs.files[name] = self_.getvalue()
                io.StringIO.close(self_)
        if "w" in mode:
            f = F()
        elif "a" in mode:
            f = F()
            f.write(fs.files.get(name, ""))
        else:
            return io.StringIO(fs.files[name])
        return f


def mods():
    import localcider.backend.sequence as S
    import localcider.backend.wang_landau as W
    if not isinstance(S.rng, C.RngShim):
        C.install(S)
    if not isinstance(W.rng, C.RngShim):
        C.install(W)
    return S, W


_kappa = {}
_dmax = {}


def kappa_of(seq):
    r = _kappa.get(seq)
    if r is None:
        from localcider.sequenceParameters import SequenceParameters as SP
        if len(seq) <= 10:
            r = SP(seq).get_kappa()
        else:
            # longer inputs: delta-max (a function of the composition, C03) once per composition from a fresh object, then
            # kappa of a fresh backend object that is handed that value (the constructor's documented second argument)
            from localcider.backend.sequence import Sequence
            key = "".join(sorted(seq))
            dm = _dmax.get(key)
            if dm is None:
                dm = _dmax[key] = SP(seq).get_deltaMax()
            r = Sequence(seq, dm).kappa()
        _kappa[seq] = r
        if len(_kappa) > 200000:
            _kappa.clear()
    return r


class Run:
    """One WL execution under a tape, with the lock-step reference machine."""

    def __init__(self, cfg, retry=6):
        self.cfg = cfg
        self.retry = retry

    def __call__(self, tape):
        S, W = mods()
        cfg = self.cfg
        def new_model():
            return RefWL(cfg["seq"], cfg["nbins"], cfg["binmin"], cfg["binmax"], cfg["flatchk"], cfg["flatcrit"], cfg["conv"], kappa_of)
        cur = {"model": new_model()}
        st = {"phase": "select", "p": None, "u": None, "events": 0, "expect_flat": False, "log": [], "viol": None,
              "accept_seen": False, "reject_seen": False, "finished_model": False}

        def menu(t):
            if st["phase"] == "accept":
                p = st["p"]
                vals = {0.0, 1.0 - 1e-12}
                for x in (p * (1 - 1e-9), p, p * (1 + 1e-9)):       # both sides of p and p itself (accept iff u < p, strictly)
                    if 0.0 <= x < 1.0:
                        vals.add(x)
                return sorted(vals)
            if st["phase"] == "select":
                st["phase"] = "move"
                return SEL
            return COIN
        tape.float_menu = menu

        def hook(kind, ev):
            model = cur["model"]
            st["events"] += 1
            if st["viol"]:
                return
            st["in_harness"] = True      # objects the reference model builds (independent kappa) are not the move's candidates
            try:
                if kind == "proposal":
                    if st["expect_flat"]:
                        raise Mismatch("flatcheck-missed", "no flat check after %d steps (period %d)" % (model.period, model.period))
                    if model.steps == 0 and model.niter == 0 and model.should_stop():
                        raise Mismatch("started-although-converged", "f=%r is already <= the threshold %r but the run takes a step" % (model.f, model.conv))
                    if st["finished_model"]:
                        raise Mismatch("continued-after-convergence", "f=%r <= threshold %r but the run continued" % (model.f, model.conv))
                    st["p"] = model.on_proposal(ev)
                    st["phase"] = "accept"
                    st["log"].append(("P", ev["nseq"], ev["idx_new"], round(float(ev["acceptProb"]), 12)))
                elif kind == "step":
                    u = tape.log[-1] if tape.log else None
                    if st["phase"] != "accept" and False:
                        pass
                    acc_ = model.on_step(ev, u)
                    st["accept_seen"] |= acc_
                    st["reject_seen"] |= not acc_
                    st["phase"] = "select"
                    st["expect_flat"] = model.check_due()
                    st["log"].append(("S", ev["oseq"], ev["idx_old"], tuple(int(x) for x in ev["H"])))
                elif kind == "flatcheck":
                    if not st["expect_flat"]:
                        raise Mismatch("flatcheck-schedule", "unscheduled flat check at step %d" % model.nstep)
                    st["expect_flat"] = False
                    flat = model.on_flatcheck(ev)
                    st["finished_model"] = model.should_stop() or abs(model.f - model.conv) <= 1e-12
                    st["log"].append(("F", flat, round(float(ev["f"]), 12)))
            except Mismatch as m:
                st["viol"] = (m.key, m.what)
                raise C.Truncated("model mismatch")
            finally:
                st["in_harness"] = False

        # retry bound on candidate children constructed inside one move (makes waiting visible)
        orig_init = S.Sequence.__init__
        ctr = [0]

        def counting_init(self_, *a, **k):
            if st["phase"] == "move" and not st.get("in_harness"):
                ctr[0] += 1
                if ctr[0] > self.retry * 4:
                    raise C.Truncated("retry bound inside a move")
            return orig_init(self_, *a, **k)
        fs = MemFS()
        W.open = fs.open
        W._VERIF_HOOK = hook
        S.Sequence.__init__ = counting_init
        result = None
        status = "completed"
        err = None
        try:
            with core.quiet():
                wl = W.WangLandauMachine(cfg["seq"], "/mem", frozenResidues=set(cfg.get("frozen", ())), nbins=cfg["nbins"], binmin=cfg["binmin"],
                                         binmax=cfg["binmax"], flatchk=cfg["flatchk"], flatcrit=cfg["flatcrit"],
                                         convergence=cfg["conv"])
                orig_select = st["phase"]

                # reset the per-move candidate counter at every move selection
                def menu2(t, _m=menu):
                    if st["phase"] == "select":
                        ctr[0] = 0
                    return _m(t)
                tape.float_menu = menu2
                result = wl.run()
                for extra_run in range(cfg.get("runs", 1) - 1):
                    # the SAME machine is run again: an independent run, judged by a fresh reference machine
                    self.check_outputs(cur["model"], st, result, fs, wl)
                    cur["model"] = new_model()
                    st.update({"phase": "select", "p": None, "expect_flat": False, "finished_model": False})
                    st["log"].append(("RUN", extra_run + 2))
                    fs.files.clear()
                    result = wl.run()
        except Mismatch as m_:
            st["viol"] = (m_.key, m_.what)
            status = "mismatch"
        except C.Truncated as e:
            status = "truncated"
            err = str(e)
        except C.Divergence:
            raise
        except Exception as e:  # noqa
            status = "raised"
            err = repr(e)
        finally:
            W._VERIF_HOOK = None
            S.Sequence.__init__ = orig_init
            try:
                del W.open
            except AttributeError:
                pass
        model = cur["model"]
        viols = []
        if st["viol"]:
            viols.append(st["viol"])
            status = "mismatch"
        elif status == "raised":
            viols.append(("run-raises", "WL run on %s raised %s" % (cfg["seq"], err)))
        elif status == "completed":
            try:
                self.check_outputs(model, st, result, fs, wl)
            except Mismatch as m:
                viols.append((m.key, m.what))
        return {"status": status, "viols": viols, "log": st["log"], "events": st["events"], "model": model,
                "both": (st["accept_seen"], st["reject_seen"]), "err": err}

    # ---- completed runs: returned array and files agree with the bookkeeping
    def check_outputs(self, model, st, result, fs, wl):
        if not (model.should_stop() or abs(model.f - model.conv) <= 1e-12):
            raise Mismatch("stopped-before-convergence", "run returned with f=%r > threshold %r" % (model.f, model.conv))
        arr = np.asarray(result, dtype=float)
        if arr.shape != (2, model.nact):
            raise Mismatch("return-shape", "returned array has shape %r, expected (2,%d)" % (arr.shape, model.nact))
        if any(abs(a - b) > 1e-12 for a, b in zip(arr[0], model.centres)):
            raise Mismatch("bin-centres", "returned bin centres %r, midpoints of the equal partition are %r" % (arr[0].tolist(), model.centres))
        if any(abs(a - b) > 1e-9 for a, b in zip(arr[1], model.g)):
            raise Mismatch("returned-g", "returned g %r, bookkeeping says %r" % (arr[1].tolist(), model.g))
        f = fs.files

        def rows(name):
            if "/mem/" + name not in f:
                raise Mismatch("file-missing", "%s was not written" % name)
            return f["/mem/" + name].split("\n")
        dos = [l.split("\t") for l in rows("DOS.txt")[1:] if l.strip()]
        if len(dos) != model.nact or any(abs(float(c) - m_) > 6e-4 or abs(float(g_) - mg) > 6e-7
                                         for (c, g_), m_, mg in zip(dos, model.centres, model.g)):
            raise Mismatch("DOS-file", "DOS.txt rows %r do not match centres %r / g %r" % (dos, model.centres, model.g))
        dl = [l.split("\t") for l in rows("DOS_local.txt")[1:] if l.strip()]
        exp = list(zip(model.centres, model.g))[model.rmin:model.rmax + 1]
        if len(dl) != len(exp) or any(abs(float(c) - m_) > 6e-4 or abs(float(g_) - mg) > 6e-7 for (c, g_), (m_, mg) in zip(dl, exp)):
            raise Mismatch("DOS-local-file", "DOS_local.txt rows %r do not match the range bins %r" % (dl, exp))
        hb = [float(x) for x in rows("histogram_bins.txt") if x.strip()]
        exp_hb = model.centres + model.centres[model.rmin:model.rmax + 1]
        if len(hb) != len(exp_hb) or any(abs(a - b) > 6e-5 for a, b in zip(hb, exp_hb)):
            raise Mismatch("histogram-bins-file", "histogram_bins.txt %r, expected %r" % (hb, exp_hb))
        gl = [l.split("\t") for l in rows("glog.txt")[1:] if l.strip()]
        if len(gl) != len(model.iter_log):
            raise Mismatch("glog-file", "glog.txt has %d iteration rows, %d iterations finished" % (len(gl), len(model.iter_log)))
        prev = [0.0] * model.nact
        for k, (row, (lnf, Hfin, gfin)) in enumerate(zip(gl, model.iter_log)):
            vals = [float(x) for x in row[1:] if x.strip()]
            if int(row[0]) != k + 1 or len(vals) != model.nact:
                raise Mismatch("glog-file", "glog.txt row %r" % row)
            for b in range(model.nact):
                if abs((vals[b] - prev[b]) - lnf * Hfin[b]) > 2.1e-4:
                    raise Mismatch("g-increment-vs-histogram", "iteration %d bin %d: logged g increment %r, ln f x final histogram = %r x %d"
                                   % (k + 1, b, vals[b] - prev[b], lnf, Hfin[b]))
            prev = vals
        # hlog: last flat-check line of each finished iteration is that iteration's final local histogram
        hl = rows("hlog.txt")
        blocks = []
        cur = None
        for line in hl:
            if line.startswith("iter"):
                cur = []
                blocks.append(cur)
            elif cur is not None and line.strip() and line[0].isdigit():
                cur.append([int(x) for x in line.split("\t")[1:] if x.strip()])
        for k, (lnf, Hfin, gfin) in enumerate(model.iter_log):
            if k >= len(blocks) or not blocks[k] or blocks[k][-1] != Hfin[model.rmin:model.rmax + 1]:
                raise Mismatch("hlog-file", "hlog.txt iteration %d ends with %r, final local histogram was %r"
                               % (k + 1, blocks[k][-1] if k < len(blocks) and blocks[k] else None, Hfin[model.rmin:model.rmax + 1]))
        for line in rows("seqlog.txt")[1:]:
            if not line.strip():
                continue
            ks, s = line.split("\t")
            if sorted(s) != sorted(model.input):
                raise Mismatch("seqlog-file", "logged sequence %s is not a rearrangement of the input" % s)
            if abs(float(ks) - kappa_of(s)) > 5.01e-4:
                raise Mismatch("seqlog-kappa", "seqlog line %r: true kappa of %s is %r" % (line, s, kappa_of(s)))


def explore_config(cfg, bound, seed, stream, horizon, acc, prefixes=None, ndet=4):
    """prefixes None: the base tape and everything within `bound` deviations; else only the subtrees of the given prefixes."""
    runner = Run(cfg)
    n = 0
    starts = [()] if prefixes is None else prefixes
    for sp in starts:
        for tape, res in C.explore(runner, "bounded", bound=bound, seed=seed, horizon=horizon, stream=stream, start_prefix=sp):
            n += 1
            acc.traces += 1
            acc.states += 1
            acc.transitions += res["events"]
            acc.capped += tape.capped
            case = {"kind": "wl", "cfg": cfg, "tape": tape.choices(), "seed": seed, "stream": stream, "horizon": horizon}
            status = res["status"]
            acc.bump("runs_" + status)
            m = res["model"]
            acc.bump("steps", m.steps)
            acc.bump("accepted_steps", m.accepts)
            acc.bump("rejected_steps", m.rejects)
            acc.bump("out_of_range_proposals", m.outrange)
            acc.bump("flat_checks", m.flatchecks)
            acc.bump("f_updates", m.niter)
            if status == "truncated":
                acc.truncated += 1
            if status == "completed":
                acc.nontrivial += 1
                acc.evaluations += 1
                acc.out((cfg["name"], tuple(round(x, 6) for x in m.g)))
                if m.niter >= 1:
                    acc.sample({"config": cfg["name"], "tape_len": len(tape.points),
                                "deviations": tape.deviations_before(len(tape.points)),
                                "steps": m.steps, "accepted": m.accepts, "f_updates": m.niter, "g": m.g}, cap=2)
            for key, what in res["viols"]:
                acc.viol(key, "%s [config %s, tape %r]" % (what, cfg["name"], tape.choices()[:40]), case)
            if n <= ndet or res["viols"]:
                t2, r2 = C.rerun(runner, tape)
                if r2["log"] != res["log"] or r2["status"] != res["status"]:
                    acc.extra.setdefault("harness_errors", []).append(
                        "uncontrolled nondeterminism: replaying tape %r of config %s gave a different observation log"
                        % (tape.choices(), cfg["name"]))
                acc.bump("determinism_replays")
    return n


def first_level(cfg, seed, stream, horizon):
    """Run the base tape once and return the prefixes that deviate from it at exactly one point."""
    mods()
    runner = Run(cfg)
    t = C.Tape((), seed, horizon, None, stream)
    C.ScriptedRandom.tape = t
    try:
        runner(t)
    finally:
        C.ScriptedRandom.tape = None
    ch = t.choices()
    out = []
    for i, (kind, m, c, d) in enumerate(t.points):
        for alt in range(m):
            if alt != c:
                out.append(ch[:i] + [alt])
    return out


def geometry_shard(_, only=None):
    """Bin geometry for every (binmin, binmax, nbins) on a grid whose width divides [0,1]: construct only, no run."""
    from fractions import Fraction as F
    acc = core.Acc()
    S, W = mods()
    grid = [(nb, F(lo10, 20), F(hi10, 20)) for nb in range(1, 11) for lo10 in range(0, 20) for hi10 in range(lo10 + 1, 21)]
    # every partition of [0,1] into 11..256 equal bins: the whole range, its first bin, its last bin and a middle stretch
    for n in range(11, 257):
        grid += [(n, F(0), F(1)), (1, F(0), F(1, n)), (1, F(n - 1, n), F(1)), (max(1, n // 3), F(n // 3, n), F(n // 3 + max(1, n // 3), n))]
    part = _[1] if _ is not None and len(_) > 1 else None
    if part is not None:
        grid = grid[part::8]
    if only is not None:
        grid = [g for g in grid if (g[0], float(g[1]), float(g[2])) == only]
    for nb, lo, hi in grid:
        if True:
            if True:
                width = (hi - lo) / nb
                if (1 / width).denominator != 1:
                    continue
                nact = int(1 / width)
                if (lo / width).denominator != 1:
                    continue        # the requested range must itself be a union of bins of the partition
                case = {"kind": "geometry", "nbins": nb, "binmin": float(lo), "binmax": float(hi)}
                acc.states += 1
                acc.traces += 1
                acc.transitions += 1
                acc.evaluations += 1
                try:
                    with core.quiet():
                        wl = W.WangLandauMachine("KKEEGG", "/mem", nbins=nb, binmin=float(lo), binmax=float(hi), flatchk=4)
                    cts = [float(x) for x in wl.getBinCenters()]
                    rmin, rmax = int(wl.relevant_min), int(wl.relevant_max)
                except Exception as e:  # noqa
                    acc.viol("geometry-raises", "WangLandauMachine(nbins=%d, [%s,%s]) raised %r" % (nb, lo, hi, e), case)
                    continue
                exp = [float(F(2 * i + 1, 2 * nact)) for i in range(nact)]
                acc.out((nact, rmin, rmax))
                if nact > 1:
                    acc.nontrivial += 1
                if len(cts) != nact or any(abs(a - b) > 1e-12 for a, b in zip(cts, exp)):
                    acc.viol("bin-centres", "nbins=%d range [%s,%s]: centres %r, midpoints of the equal partition into %d bins are %r"
                             % (nb, lo, hi, cts, nact, exp), case)
                    continue
                erm = int(lo / width)
                if (rmin, rmax) != (erm, erm + nb - 1):
                    acc.viol("range-bins", "nbins=%d range [%s,%s]: range bins %d..%d, expected %d..%d"
                             % (nb, lo, hi, rmin, rmax, erm, erm + nb - 1), case)
                for i in range(nact):
                    if wl.indexInsideRelevantRegion(i) != (erm <= i <= erm + nb - 1):
                        acc.viol("range-test", "nbins=%d range [%s,%s]: bin %d range test wrong" % (nb, lo, hi, i), case)
                        break
    return acc


def configs(tier):
    e = math.e
    base = [
        dict(name="KKEEGG/2bins[0,1]/p4/2upd", seq="KKEEGG", nbins=2, binmin=0, binmax=1, flatchk=4, flatcrit=0.5, conv=math.exp(0.3)),
        dict(name="KKEEGG/2bins[0,.5]/p3/1upd", seq="KKEEGG", nbins=2, binmin=0, binmax=0.5, flatchk=3, flatcrit=0.3, conv=math.exp(0.6)),
        dict(name="KKKEEEGG/1bin/p2/2upd", seq="KKKEEEGG", nbins=1, binmin=0, binmax=1, flatchk=2, flatcrit=0.9, conv=math.exp(0.3)),
    ]
    base.append(dict(name="KKKEEEGG/1bin/p2/1upd/run-twice", seq="KKKEEEGG", nbins=1, binmin=0, binmax=1, flatchk=2, flatcrit=0.9,
                     conv=math.exp(0.6), runs=2))
    base.append(dict(name="KKKEEG/2bins[0,1]/p3/1upd/kappa>1-arrangements", seq="KKKEEG", nbins=2, binmin=0, binmax=1, flatchk=3, flatcrit=0.3,
                     conv=math.exp(0.6)))
    base.append(dict(name="KKEEGGGG/3bins[.2,.8]/p3/1upd", seq="KKEEGGGG", nbins=3, binmin=0.2, binmax=0.8, flatchk=3, flatcrit=0.3,
                     conv=math.exp(0.6)))
    base.append(dict(name="KEKEGG/2bins[0,1]/p3/1upd/frozen{0,5}", seq="KEKEGG", nbins=2, binmin=0, binmax=1, flatchk=3, flatcrit=0.3,
                     conv=math.exp(0.6), frozen=[0, 5]))
    if tier == "quick":
        return base
    more = [
        dict(name="KKEEGGGG/3bins[.1,.4]/p4/1upd", seq="KKEEGGGG", nbins=3, binmin=0.1, binmax=0.4, flatchk=4, flatcrit=0.3, conv=math.exp(0.6)),
        dict(name="KEKEGG/2bins[.6,.8]/p2/1upd", seq="KEKEGG", nbins=2, binmin=0.6, binmax=0.8, flatchk=2, flatcrit=0.3, conv=math.exp(0.6)),
        dict(name="KEKEGKE/4bins[0,1]/p8/1upd", seq="KEKEGKE", nbins=4, binmin=0, binmax=1, flatchk=8, flatcrit=0.3, conv=math.exp(0.6)),
        dict(name="KKEEGG/2bins[.5,1]/p5/1upd", seq="KKEEGG", nbins=2, binmin=0.5, binmax=1, flatchk=5, flatcrit=0.5, conv=math.exp(0.6)),
        dict(name="KRDEGS/2bins[0,1]/p1/2upd", seq="KRDEGS", nbins=2, binmin=0, binmax=1, flatchk=1, flatcrit=0.3, conv=math.exp(0.3)),
        dict(name="KKEEGG/2bins[0,1]/p6/conv=sqrt(e)", seq="KKEEGG", nbins=2, binmin=0, binmax=1, flatchk=6, flatcrit=0.5,
             conv=float(np.exp(1) ** 0.5)),
        dict(name="KKKEEEGG/2bins[0,1]/p7/3upd", seq="KKKEEEGG", nbins=2, binmin=0, binmax=1, flatchk=7, flatcrit=0.5, conv=math.exp(0.2)),
        dict(name="EEKKGA/1bin/p3/3upd", seq="EEKKGA", nbins=1, binmin=0, binmax=1, flatchk=3, flatcrit=0.9, conv=math.exp(0.2)),
        dict(name="KKEEGGS/2bins[0,1]/p4/crit.9", seq="KKEEGGS", nbins=2, binmin=0, binmax=1, flatchk=4, flatcrit=0.9, conv=math.exp(0.6)),
    ]
    return base + more


def sequence_shard(s):
    """Several sequences with the same composition but different residues, run one after another in a freshly imported package."""
    from ..engines.history import fresh_world
    _, cfgs, seed = s
    acc = core.Acc()
    fresh_world()
    mods()
    for k, cfg in enumerate(cfgs):
        explore_config(cfg, 0 if k == 0 else 1, seed, 40 + k, 400, acc, ndet=1)
    return acc


def shard(s):
    if s[0] == "geometry":
        return geometry_shard(s)
    if s[0] == "sequence":
        return sequence_shard(s)
    acc = core.Acc()
    cfg, bound, seed, stream, horizon, prefixes = s
    mods()
    explore_config(cfg, bound, seed, stream, horizon, acc, prefixes)
    return acc


def replay(case):
    mods()
    if case["cfg"].get("name", "").endswith("in-sequence") if "cfg" in case else False:
        same = [dict(case["cfg"], seq=q, name="%s/2bins[0,1]/p3/1upd/in-sequence" % q) for q in ("KKEEGG", "RRDDAS", "KRDEGS", "KKEEGG")]
        a = sequence_shard(("sequence", same, case["seed"]))
        a2 = sequence_shard(("sequence", list(reversed(same[:3])), case["seed"]))
        return a.violations + a2.violations
    if case.get("kind") == "geometry":
        a = geometry_shard(None, only=(case["nbins"], case["binmin"], case["binmax"]))
        return a.violations
    runner = Run(case["cfg"])
    t = C.Tape(case["tape"], case["seed"], case["horizon"], None, case["stream"])
    C.ScriptedRandom.tape = t
    try:
        res = runner(t)
    finally:
        C.ScriptedRandom.tape = None
    return [{"key": k, "what": w, "case": case} for k, w in res["viols"]]


def run(tier, seed, t0):
    cfgs = configs(tier)
    shards = []
    base_seed = seed * 101 + 11
    plan = []   # (cfg, stream, bound, first-level prefixes)
    nstreams = 6 if tier == "quick" else 16
    for ci, cfg in enumerate(cfgs):
        fl = {st_: first_level(cfg, base_seed, st_, 400) for st_ in range(nstreams)}
        order = sorted(range(nstreams), key=lambda st_: (len(fl[st_]), st_))
        deep = [st_ for st_ in order[:(1 if tier == "quick" else 3)] if len(fl[st_]) <= (100 if tier == "quick" else 220)]
        for st_ in range(nstreams):
            b = 2 if st_ in deep else 1
            if tier == "thorough" and deep and st_ == deep[0] and len(fl[st_]) <= 50:
                b = 3
            plan.append((cfg, st_, b, fl[st_]))
    for cfg, stream, bound, pre in plan:
        if bound <= 1:
            shards.append((cfg, bound, base_seed, stream, 400, None))
        else:
            shards.append((cfg, 0, base_seed, stream, 400, None))       # the base tape itself
            k = 6 if bound == 2 else 1
            for i in range(0, len(pre), k):
                shards.append((cfg, bound, base_seed, stream, 400, pre[i:i + k]))
    shards.sort(key=lambda s: -s[1])
    shards += [("geometry", k) for k in range(8)]
    same = [dict(name="%s/2bins[0,1]/p3/1upd/in-sequence" % q, seq=q, nbins=2, binmin=0, binmax=1, flatchk=3, flatcrit=0.3, conv=math.exp(0.6))
            for q in ("KKEEGG", "RRDDAS", "KRDEGS", "KKEEGG")]
    shards.append(("sequence", same, base_seed))
    shards.append(("sequence", list(reversed(same[:3])), base_seed + 1))
    longcfg = dict(name="KKKEEEGG/1bin/p10/5upd/long", seq="KKKEEEGG", nbins=1, binmin=0, binmax=1, flatchk=10, flatcrit=0.9,
                   conv=math.exp(0.04))
    for st_ in range(3 if tier == "quick" else 8):
        shards.append((longcfg, 0, base_seed, 70 + st_, 4000, None))
    slow = dict(name="KKKEEGGG/4bins[0,1]/p2/crit.9/slow-start", seq="KKKEEGGG", nbins=4, binmin=0, binmax=1, flatchk=2, flatcrit=0.9,
                conv=math.exp(0.6))
    slow2 = dict(name="KKKEEGGGG/1bin[.75,.875]/p1/slow-start", seq="KKKEEGGGG", nbins=1, binmin=0.75, binmax=0.875, flatchk=1, flatcrit=0.5,
                 conv=math.exp(0.6))
    for st_ in range(3 if tier == "quick" else 8):
        shards.append((slow, 0, base_seed, 90 + st_, 1500, None))
        shards.append((slow2, 0, base_seed, 95 + st_, 1500, None))
    # flat-check periods that are not multiples of the progress-dot period (flatchk//20), and the loosest flatness criterion (0: every
    # scheduled check with anything counted is flat, even with empty bins)
    for ci, (fc, crit, nb) in enumerate(((41, 0.3, 2), (45, 0.3, 2), (64, 0.2, 2), (70, 0.2, 1), (2, 0.0, 4), (3, 0, 4), (1, 0.0, 3))):
        pcfg = dict(name="KKKEEGGG/%dbins[0,1]/p%d/crit%r/period-or-criterion" % (nb, fc, crit), seq="KKKEEGGG", nbins=nb, binmin=0, binmax=1,
                    flatchk=fc, flatcrit=crit, conv=math.exp(0.6))
        for st_ in range(2):
            shards.append((pcfg, 0, base_seed, 170 + 2 * ci + st_, 1500, None))
    # one bin and a flat check after every step: f is square-rooted at every step, so ln f falls far below the spacing of single-
    # precision numbers around g within 30 steps (the update of g must be carried out in double precision)
    for ci, (pd, cvx) in enumerate(((1, 2.0 ** -30), (2, 2.0 ** -28), (3, 2.0 ** -26))):
        tcfg = dict(name="KKKEEEGG/1bin/p%d/conv=exp(%r)/tiny-lnf" % (pd, cvx), seq="KKKEEEGG", nbins=1, binmin=0, binmax=1, flatchk=pd,
                    flatcrit=0.9, conv=math.exp(cvx))
        shards.append((tcfg, 0, base_seed, 190 + ci, 3000, None))
    # thresholds at or above the initial f = e: the run has converged before it starts and must take no step
    for ci, cv in enumerate((math.e, float(np.exp(1)), 3.0, 10.0, math.nextafter(math.e, 3.0))):
        zcfg = dict(name="KKEEGG/2bins[0,1]/p3/conv=%r/zero-steps" % cv, seq="KKEEGG", nbins=2, binmin=0, binmax=1, flatchk=3, flatcrit=0.3, conv=cv)
        shards.append((zcfg, 0, base_seed, 160 + ci, 400, None))
    # bin walks: the same composition under every bin count 1..12 (edges at i/n), long base-tape runs; every proposal's bin is
    # compared with the nearest mid-point of its true kappa - the closer a kappa lies to an edge, the more bin counts expose it
    for comp in (("KKKEEGGG",) if tier == "quick" else ("KKKEEGGG", "KKEEGGG", "KKKEEEGG", "KKKKEEGGG")):
        for nb in range(1, 13):
            wcfg = dict(name="%s/%dbins[0,1]/p40/binwalk" % (comp, nb), seq=comp, nbins=nb, binmin=0, binmax=1, flatchk=40, flatcrit=0.2,
                        conv=math.exp(0.6))
            for st_ in range(2 if tier == "quick" else 4):
                shards.append((wcfg, 0, base_seed, 120 + st_, 3000, None))
    # a medium-size irregular input (22 residues, K/R and D/E mixed, 6 bins of width 0.1): dense kappa spectrum, cluster sizes >= 5
    medcfg = dict(name="GSKRAEDKTRPQEELKNDSRKA/6bins[0,.6]/p30/medium", seq="GSKRAEDKTRPQEELKNDSRKA", nbins=6, binmin=0, binmax=0.6, flatchk=30,
                  flatcrit=0.2, conv=math.exp(0.6))
    for st_ in range(4 if tier == "quick" else 12):
        shards.append((medcfg, 0, base_seed, 140 + st_, 2500, None))
    if tier == "thorough":
        shards.append((dict(longcfg, name="KKEEGG/2bins[0,1]/p25/4upd/long", seq="KKEEGG", nbins=2, flatchk=25, flatcrit=0.3, conv=math.exp(0.07)),
                       0, base_seed, 80, 6000, None))
    acc_plan = {"d<=%d" % b: sum(1 for p_ in plan if p_[2] == b) for b in (1, 2, 3)}
    acc = core.pmap(shard, shards)
    both = acc.extra.get("accepted_steps", 0) > 0 and acc.extra.get("rejected_steps", 0) > 0
    if not both or not acc.extra.get("out_of_range_proposals") or not acc.extra.get("f_updates"):
        acc.extra.setdefault("harness_errors", []).append("vacuous WL exploration: accept/reject/out-of-range/f-update not all observed")
    return core.finish(
        PROP, tier, seed, acc, t0,
        rule="state = one complete Wang-Landau execution = (configuration, tape of answers to every random draw). %d configurations "
             "(6-8 residue sequences, one of them with frozen residues; 1/2/4 bins over [0,1], [0,.5], [.5,1]; flat-check period 1-8; flatness .3/.5/.9; one to three "
             "f-updates; one with f == threshold exactly, five with the threshold at or above the initial f = e: zero steps; three one-bin runs down to ln f = 2^-30 / 2^-28 / 2^-26; four with flat-check periods 41/45/64/70 and three with flatness criterion 0) x base tapes derived from VERIF_SEED x ALL tapes within d deviations of the "
             "base tape (%s), horizon 400 choice points, retry bound inside a move. Menus: every value of every _randbelow (cap 12), "
             "one float inside each of the four move-selection intervals, both sides of the 0.5 coin, and for the acceptance draw "
             "{0, p(1-1e-9), p, p(1+1e-9), 1-1e-12} with p computed by the reference model. The reference WL machine consumes the hook's "
             "proposal/step/flatcheck events (transitions) and predicts: proposal is a rearrangement with its true kappa and bin, "
             "range test, acceptance probability min(1,exp(g_old-g_new)) / 0 outside, decision <=> u<p, g/H update of the occupied "
             "bin, flat-check schedule, flatness test, f <- sqrt f, H reset, stop <=> f <= threshold; completed runs: returned array, "
             "DOS/DOS_local/histogram_bins/glog/hlog/seqlog files. First 4 executions per shard and every violating one are replayed "
             "and their observation logs compared. Bin geometry alone (centres, range bins, range test) is additionally checked by "
             "construction for every (nbins<=10, binmin, binmax on a 0.05 grid) whose width divides [0,1], and for every equal partition of [0,1] into 11..256 bins (whole range, first bin, last bin, a middle third). Three (thorough: eight) long base-tape runs (1 bin, period 10, five f-updates, g > 10) exercise the log writers at values "
             "that need more than four significant digits. Bin walks: KKKEEGGG (thorough: 4 compositions) under every bin count 1..12, two (four) base tapes of 3000 choice points each; a 22-residue irregular input with 6 bins of width 0.1, 4 (12) base tapes of 2500 choice points. One configuration runs the same "
             "machine twice (the second run judged by a fresh reference machine); four same-composition sequences (KKEEGG, RRDDAS, KRDEGS, "
             "KKEEGG) are run one after another in a freshly imported package, in both orders. non-trivial = completed runs" % (
                 len(cfgs), "base tapes per deviation bound: %r" % acc_plan),
        bounds={"configurations": len(cfgs), "horizon": 400, "base_tapes_per_deviation_bound": acc_plan, "float_cap": "representatives", "randbelow_cap": C.CAP},
        exhaustive=True,
        assumptions=["all randomness enters through random.Random instances created in backend/sequence.py and backend/wang_landau.py "
                     "(module attribute rng shadowed); wall-clock only seeds them (seed() is a no-op) and times prints",
                     "files are written through an in-memory open() shadowing the builtin in backend/wang_landau.py"])
