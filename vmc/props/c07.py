"""C07 - get_SCD() equals the Sawle-Ghosh sequence charge decoration."""
from .. import core, spaces
from ..refmodel import charge as R

PROP = "C07"


def check_case(case):
    from localcider.sequenceParameters import SequenceParameters as SP
    seq = case["seq"]
    pat = R.pattern_of(seq)
    ref = R.scd(pat)
    out = []
    try:
        with core.istate(seq):
            got = core.sp(seq).get_SCD()
    except Exception as e:  # noqa
        return [{"key": "exception", "what": "get_SCD raised %r for %s" % (e, seq), "case": case}], ref, None
    if not core.close(got, ref, 1e-9, 1e-12):
        out.append({"key": "scd-mismatch", "what": "get_SCD(%s)=%r but definition gives %r" % (seq if len(seq) <= 80 else seq[:60] + "...(%d residues)" % len(seq), got, ref),
                    "case": dict(case, expected=ref, observed=float(got))})
    ncharged = len(pat) - pat.count("0")
    if ncharged < 2 and got != 0:
        out.append({"key": "scd-nonzero-lt2-charges", "what": "get_SCD(%s)=%r with fewer than two charged residues" % (seq, got),
                    "case": case})
    return out, ref, got


def _consume(acc, seq, fam=None):
    v, ref, got = check_case({"kind": "scd", "seq": seq} if fam is None else {"kind": "scd", "seq": seq, "family": fam[0], "index": fam[1]})
    acc.states += 1
    acc.transitions += 1
    acc.traces += 1
    acc.evaluations += 1
    if ref != 0:
        acc.nontrivial += 1
    acc.out(round(ref, 10))
    for x in v:
        acc.viol(x["key"], x["what"], x["case"])
    if ref != 0 and len(seq) >= 6:
        acc.sample({"seq": seq, "SCD_api": got, "SCD_ref": ref}, cap=1)


def xl_pattern(N, k):
    """Sequences with more than 1024 charged residues (blocked / vectorised evaluations split there): k selects the pattern."""
    if k == 0:
        return ("+-" * N)[:N]
    if k == 1:
        return "+" * (N // 2) + "-" * (N - N // 2)
    if k == 2:
        return ("++-0" * N)[:N]
    d = spaces.de_bruijn(R.SYM, 6)
    return ((d + d[::-1]) * (N // len(d) + 1))[:N]


def shard(s):
    acc = core.Acc()
    kind = s[0]
    if kind == "P":
        for pat in spaces.shard_words(R.SYM, s[1], s[2]):
            _consume(acc, R.spell_base(pat))
    elif kind == "S":
        for pat in spaces.shard_words(R.SYM, s[1], s[2]):
            for k in range(16):
                _consume(acc, R.spell_covering(pat, k))
            _consume(acc, R.spell_rotating(pat))
    elif kind == "SCAN":
        from ..engines.history import fresh_world
        fresh_world()     # module-level tables start empty; lengths then come strictly ascending (or descending)
        Ns = list(range(2, s[1] + 1))
        for N in (Ns if s[2] == "up" else reversed(Ns)):
            for pat in ("+" * N, ("+-" * N)[:N - 1] + "+", "+" + "0" * (N - 2) + "-", "-" + "0+" * ((N - 2) // 2) + "0" * ((N - 2) % 2) + "-"):
                if len(pat) == N:
                    _consume(acc, R.spell_rotating(pat, N))
    elif kind == "PAD":
        from ..engines.history import fresh_world
        fresh_world()
        for i, pat in enumerate(spaces.padded_cores()):
            _consume(acc, R.spell_rotating(pat, len(pat) % 3), ("PAD", i))
    elif kind == "XL":
        _consume(acc, R.spell_rotating(xl_pattern(s[1], s[2]), s[2]))
    elif kind == "DB":
        for pat in spaces.window_complete_chunks(R.SYM, 6, s[1]):
            _consume(acc, R.spell_rotating(pat, len(pat)))
    elif kind == "LONG":
        for pat in spaces.long_family(s[1]):
            _consume(acc, R.spell_rotating(pat, s[1]))
    else:
        for pat in spaces.run_length_patterns(s[1], s[2]):
            _consume(acc, R.spell_rotating(pat, s[1]))
    return acc


def run(tier, seed, t0):
    L, L2, RN = (10, 6, 20) if tier == "quick" else (12, 8, 40)
    shards = [("P",) + s for s in spaces.word_shards(R.SYM, 1, L, 4)]
    shards += [("S",) + s for s in spaces.word_shards(R.SYM, 1, L2, 3)]
    shards += [("R", N, 3) for N in range(RN, 1, -1)]
    LN = (64, 127, 128, 129, 200, 256, 257, 513) if tier == "quick" else (64, 127, 128, 129, 200, 255, 256, 257, 300, 400, 512, 700, 1000)
    shards += [("LONG", N) for N in LN]
    shards += [("PAD",)]
    shards = [("XL", N, k) for N in ((1100, 1501) if tier == "quick" else (1100, 1501, 2051, 2600)) for k in range(4)] + shards
    # lengths around powers of two beyond 1000 (transform / padding sizes), termini charged
    shards = [("XL", N, k) for N in ((1023, 1024, 1025) if tier == "quick" else (1023, 1024, 1025, 2047, 2048, 2049, 4097)) for k in (0, 1)] + shards
    shards += [("DB", (L_,)) for L_ in ((23, 47, 97) if tier == "quick" else (17, 23, 31, 47, 61, 97, 150, 301))]
    SC = 200 if tier == "quick" else 520
    shards = [("SCAN", SC, "up"), ("SCAN", SC, "down")] + shards
    acc = core.pmap(shard, shards)
    return core.finish(
        PROP, tier, seed, acc, t0,
        rule="every charge pattern of length 1..%d (K/E/G), every pattern of length 1..%d in 17 spellings covering all 20 "
             "residues, every <=3-run pattern of length 2..%d, a structured family of long patterns (homopolymers, 2/3-block, periodic) "
             "at lengths %s, four patterns with more than 1024 charged residues at 1100 and 1501 residues (thorough: to 2600), two patterns with charged termini at 1023/1024/1025 residues (thorough: also 2047-2049, 4097), and EVERY length 2..%d in strictly ascending and strictly descending order in a freshly imported package (4 "
             "patterns with charged termini per length), and shared-core families (6 irregular cores of 24-40 residues with charged ends, each "
             "between every combination of 0/1/3/8 neutral residues on either side, core-major then padding-major, in a fresh package); one real get_SCD() call each, compared with "
             "(1/N) sum_{m>n} q_m q_n sqrt(m-n) evaluated with integer pair counts per distance and math.fsum; "
             "non-trivial = reference SCD != 0" % (L, L2, RN, list(LN), SC),
        bounds={"L_base": L, "L_spellings": L2, "runlength_N": RN, "tolerance_rel": 1e-9},
        assumptions=["reference: vmc/refmodel/charge.py:scd"])


def replay(case):
    if case.get("family") == "PAD":      # the whole family up to this member, in order, in the (fresh) world
        for pat in spaces.padded_cores()[:case["index"]]:
            check_case({"kind": "scd", "seq": R.spell_rotating(pat, len(pat) % 3)})
    return check_case(case)[0]
