"""C11 - complexity profiles: window count, positions, range, locality, WF = Shannon entropy."""
import math

import numpy as np

from .. import core, spaces
from ..refmodel import tables as T

PROP = "C11"
TYPES = ("WF", "LC", "LZW")


def user_alphabets():
    ident = {a: a for a in T.AA}
    two = {a: ("L" if a in "LVIMCAGSTPFYW" else "E") for a in T.AA}
    kvs = {a: ("K" if a in "KRH" else ("S" if a in "ST" else "A")) for a in T.AA}
    rot = {a: T.AA[(i + 1) % 20] for i, a in enumerate(T.AA)}
    # not idempotent: the representative letters are themselves mapped on (L -> K, everything outside {L,K,D,E} -> L): a sequence made of
    # representative letters only still has to be translated
    chain = {a: ("K" if a in "LKDE" else "L") for a in T.AA}
    return [("identity", ident), ("two", two), ("three", kvs), ("rotation", rot), ("chain", chain)]


def reduce_ref(seq, size, ua):
    if ua is not None:
        red = "".join(ua[a] for a in seq)
        return red, len(set(ua.values()))
    groups = T.REDUCED[size]
    m = {}
    for g in groups:
        for a in g:
            m[a] = g[0]
    return "".join(m[a] for a in seq), len(groups)


def entropy(win, A):
    w = len(win)
    h = 0.0
    for c in set(win):
        p = win.count(c) / w
        h -= p * math.log(p, A)
    return h


_single = {}


def single_value(win, typ, size, ua_name, ua, ws):
    """Value of the one-window profile of a fresh object built from `win` (locality oracle)."""
    from localcider.sequenceParameters import SequenceParameters as SP
    key = (win, typ, size, ua_name, ws)
    r = _single.get(key)
    if r is None:
        kw = dict(complexityType=typ, blobLen=len(win), stepSize=1, wordSize=ws)
        if ua is not None:
            kw["userAlphabet"] = dict(ua)
        else:
            kw["alphabetSize"] = size
        try:
            arr = np.asarray(SP(win).get_linear_complexity(**kw))
            r = (arr.shape, float(arr[1][0]) if arr.shape == (2, 1) else None)
        except Exception as e:  # noqa
            r = ("raised %r" % e, None)
        _single[key] = r
        if len(_single) > 400000:
            _single.clear()
    return r


_byred = {}
_kept = {}


def check_call(seq, typ, size, ua_name, ua, w, s, ws, case, out, obj=None):
    from localcider.sequenceParameters import SequenceParameters as SP
    N = len(seq)

    def v(key, what):
        out.append({"key": key, "what": what,
                    "case": dict(case, seq=seq, type=typ, size=size, ua=ua_name, w=w, s=s, ws=ws)})
    kw = dict(complexityType=typ, blobLen=w, stepSize=s, wordSize=ws)
    if ua is not None:
        kw["userAlphabet"] = dict(ua)
    else:
        kw["alphabetSize"] = size
    tag = "%s %s size=%s ua=%s w=%d s=%d ws=%d" % (seq, typ, size, ua_name, w, s, ws)
    try:
        arr = (obj if obj is not None else SP(seq)).get_linear_complexity(**kw)
    except Exception as e:  # noqa
        if w <= N:
            v("rejects-valid-call", "%s raised %r" % (tag, e))
        return 1
    if w > N:
        v("window-gt-length-answered", "%s (N=%d) was answered" % (tag, N))
        return 1
    arr = np.asarray(arr)
    if obj is not None:
        # a result handed out earlier must not change when the same object answers a later call
        prev = _kept.get(id(obj))
        if prev is not None and not np.array_equal(prev[0], prev[1]):
            v("earlier-result-changed", "%s: the array returned by the previous call (%s) was modified by this call" % (tag, prev[2]))
        _kept.clear()
        _kept[id(obj)] = (arr, arr.copy(), tag)
    K = (N - w) // s + 1
    if arr.shape != (2, K):
        v("shape", "%s: shape %r, expected (2,%d)" % (tag, arr.shape, K))
        return 1
    pos = arr[0]
    if any(float(x) != int(x) for x in pos) or any(pos[i] >= pos[i + 1] for i in range(K - 1)) or pos[0] < 1 or pos[-1] > N:
        v("positions", "%s: position row %r not integral/strictly increasing/within 1..%d" % (tag, pos.tolist(), N))
    vals = arr[1]
    if any((not (0.0 <= float(x) <= 1.0 + 1e-12)) for x in vals):
        v("range", "%s: values %r outside [0,1]" % (tag, vals.tolist()))
    calls = 1
    for k in range(K):
        win = seq[k * s:k * s + w]
        shape, sv = single_value(win, typ, size, ua_name, ua, ws)
        if sv is None:
            v("single-window-shape", "%s: one-window profile of %s has shape %r" % (tag, win, shape))
            continue
        if not core.close(vals[k], sv, 1e-12, 1e-13):
            v("locality", "%s: value %d is %r but the window %s alone gives %r" % (tag, k, float(vals[k]), win, sv))
        # "after alphabet reduction": windows with the same reduced string must have the same value
        red, A = reduce_ref(win, size, ua)
        rk = (red, typ, size, ua_name, ws)
        first = _byred.get(rk)
        if first is None:
            if len(_byred) > 400000:
                _byred.clear()
            _byred[rk] = (win, float(vals[k]))
        elif not core.close(vals[k], first[1], 1e-12, 1e-13):
            v("depends-on-more-than-reduced-window", "%s: window %s and window %s both reduce to %s but give %r and %r"
              % (tag, win, first[0], red, float(vals[k]), first[1]))
        if typ == "WF":
            red, A = reduce_ref(win, size, ua)
            h = entropy(red, A)
            if not core.close(vals[k], h, 1e-9, 1e-12):
                v("WF-entropy", "%s: value %d is %r but Shannon entropy (base %d) of reduced window %s is %r"
                  % (tag, k, float(vals[k]), A, red, h))
    return calls


def check_case(case):
    out = []
    calls = 0
    if case["kind"] == "word":
        seq = case["seq"]
        N = len(seq)
        uas = dict(user_alphabets())
        confs = [(sz, None, None) for sz in case["sizes"]] + [(20, n, uas[n]) for n in case["uas"]]
        from localcider.sequenceParameters import SequenceParameters as SP0
        shared = SP0(seq)     # ONE live object answers every configuration of this word (locality uses fresh objects)
        wins = range(1, N + 2) if not case.get("medium") else sorted({1, 3, 5, 10, N // 2, N, N + 1})
        steps = range(1, N + 1) if not case.get("medium") else (1, 2, 7)
        import zlib
        if zlib.crc32(seq.encode()) % 4 == 0:
            wins = [N + 1] + list(wins)     # the rejected too-long window FIRST on the shared object, valid windows afterwards
        for size, ua_name, ua in confs:
            for w in wins:
                for s in steps:
                    for typ in TYPES:
                        # LC: every word size; WF and LZW ignore it (same answer for 1 and 6 as for 3, checked at one step size)
                        for ws in (range(1, 7) if typ == "LC" else ((3, 1, 6) if s == 1 and w <= 6 else (3,))):
                            calls += check_call(seq, typ, size, ua_name, ua, w, s, ws, case, out, shared)
            if case.get("medium"):
                # the entropy measure at EVERY window length of a medium-size word (steps 1 and 5)
                for w in range(1, N + 1):
                    if w not in wins:
                        for s in (1, 5):
                            calls += check_call(seq, "WF", size, ua_name, ua, w, s, 3, case, out, shared)
        # the documented parameter order passed positionally == the same call by keyword (LC, where window, step and word size all matter)
        for (w_, s_, ws_) in ((min(N, 4), 2, 1), (min(N, 5), 1, 2), (min(N, 3), 3, 3)):
            for size, ua_name, ua in confs[:2] + confs[-1:]:
                calls += 2
                try:
                    kw_ = dict(complexityType="LC", blobLen=w_, stepSize=s_, wordSize=ws_)
                    if ua is not None:
                        kw_["userAlphabet"] = dict(ua)
                    else:
                        kw_["alphabetSize"] = size
                    a_kw = np.asarray(SP0(seq).get_linear_complexity(**kw_))
                    a_pos = np.asarray(SP0(seq).get_linear_complexity("LC", size if ua is None else 20, {} if ua is None else dict(ua), w_, s_, ws_))
                except Exception as e:  # noqa
                    out.append({"key": "positional-call-rejected", "what": "%s: get_linear_complexity('LC', size, alphabet, %d, %d, %d) raised %r"
                                % (seq, w_, s_, ws_, e), "case": dict(case, w=w_, s=s_, ws=ws_)})
                    continue
                if a_kw.shape != a_pos.shape or not np.allclose(a_kw, a_pos, rtol=1e-12, atol=1e-13):
                    out.append({"key": "positional-vs-keyword", "what": "%s: get_linear_complexity('LC', %r, %s, %d, %d, %d) positionally gives shape %r, "
                                "by keyword (blobLen=%d, stepSize=%d, wordSize=%d) shape %r" % (seq, size, ua_name, w_, s_, ws_, a_pos.shape, w_, s_, ws_, a_kw.shape),
                                "case": dict(case, w=w_, s=s_, ws=ws_, size=size, ua=ua_name)})
        # a user alphabet carrying extra (non-amino-acid) keys that map to letters no amino acid maps to: if it is accepted at all,
        # the 20 amino-acid entries decide - alphabet size and values are those of the same alphabet without the extras
        for ua_name in case["uas"][:2]:
            ua = uas[ua_name]
            unused = [a for a in T.AA if a not in set(ua.values())][:3]
            if not unused:
                continue
            extra = dict(ua)
            for k_, tgt in zip(("X", "b", "Z"), unused):
                extra[k_] = tgt
            w_ = min(N, 6)
            calls += 2
            try:
                want = np.asarray(SP0(seq).get_linear_complexity("WF", userAlphabet=dict(ua), blobLen=w_))
                got = np.asarray(SP0(seq).get_linear_complexity("WF", userAlphabet=extra, blobLen=w_))
            except Exception:  # noqa (whether extra keys are accepted is not specified)
                continue
            if got.shape != want.shape or not np.allclose(got, want, rtol=1e-12, atol=1e-13):
                out.append({"key": "extra-keys-change-result", "what": "%s: user alphabet %s with extra keys X,b,Z -> %r gives WF %r, without them %r"
                            % (seq, ua_name, unused, got[1].tolist()[:4], want[1].tolist()[:4]), "case": dict(case, ua=ua_name)})
        # the alphabet size in its other accepted spellings (string, padded string, float, numpy integer) selects the same reduction
        for size in case["sizes"]:
            w = min(N, 4)
            try:
                want = np.asarray(SP0(seq).get_linear_complexity("WF", size, blobLen=w))
            except Exception:  # noqa
                continue
            for sp in (str(size), " %d " % size, float(size), np.int64(size), np.float64(size)):
                calls += 1
                try:
                    got = np.asarray(SP0(seq).get_linear_complexity("WF", sp, blobLen=w))
                    got2 = np.asarray(SP0(seq).get_linear_complexity(complexityType="LZW", alphabetSize=sp, blobLen=w))
                    want2 = np.asarray(SP0(seq).get_linear_complexity(complexityType="LZW", alphabetSize=size, blobLen=w))
                except Exception as e:  # noqa
                    out.append({"key": "size-spelling-rejected", "what": "%s: alphabetSize=%r raised %r although %r is accepted"
                                % (seq, sp, e, size), "case": dict(case, size=size, spelling=repr(sp))})
                    continue
                if got.shape != want.shape or not np.allclose(got, want, rtol=1e-12, atol=1e-13) or not np.allclose(got2, want2, rtol=1e-12, atol=1e-13):
                    out.append({"key": "size-spelling-changes-result", "what": "%s: alphabetSize=%r gives %r but %r gives %r"
                                % (seq, sp, got[1].tolist()[:4], size, want[1].tolist()[:4]), "case": dict(case, size=size, spelling=repr(sp))})
        # unknown complexity types are rejected
        from localcider.sequenceParameters import SequenceParameters as SP
        for bad in ("XX", "RHP", "", "W F", None, 5):
            calls += 1
            try:
                r = SP(seq).get_linear_complexity(complexityType=bad, blobLen=1)
            except Exception:  # noqa
                continue
            out.append({"key": "unknown-type-accepted", "what": "%s: complexityType=%r was answered with %r" % (seq, bad, r),
                        "case": dict(case, bad=bad)})
    elif case["kind"] == "long-then-short":
        # fresh package; long sequences lacking whole reduced classes first, then the usual short-word battery
        from ..engines.history import fresh_world
        from localcider.sequenceParameters import SequenceParameters as SP
        fresh_world()
        from localcider.sequenceParameters import SequenceParameters as SP  # noqa (re-imported)
        _single.clear()
        _byred.clear()
        longs = [("GSQNTAKEDR" * 14)[:case["L"]], ("LVIMAG" * 25)[:case["L"]], ("KE" * 80)[:case["L"]], ("ST" * 80)[:case["L"]]]
        for seq in longs:
            o = SP(seq)
            for size in case["sizes"]:
                for typ in TYPES:
                    for w in (5, 10):
                        calls += 1
                        try:
                            arr = np.asarray(o.get_linear_complexity(typ, size, blobLen=w))
                        except Exception as e:  # noqa
                            out.append({"key": "rejects-valid-call", "what": "%d-mer %s size %s w=%d raised %r" % (len(seq), typ, size, w, e),
                                        "case": dict(case, seq=seq)})
                            continue
                        if arr.shape != (2, len(seq) - w + 1):
                            out.append({"key": "shape", "what": "%d-mer %s size %s w=%d: shape %r, expected (2,%d)"
                                        % (len(seq), typ, size, w, arr.shape, len(seq) - w + 1), "case": dict(case, seq=seq)})
                            continue
                        if typ == "WF":
                            for k in (0, len(seq) // 2, len(seq) - w):
                                red, A = reduce_ref(seq[k:k + w], size, None)
                                if not core.close(arr[1][k], entropy(red, A), 1e-9, 1e-12):
                                    out.append({"key": "WF-entropy", "what": "%d-mer size %s w=%d window %d: %r vs entropy %r"
                                                % (len(seq), size, w, k, float(arr[1][k]), entropy(red, A)), "case": dict(case, seq=seq)})
                                    break
        # windows of 256 and more residues (count types must not wrap)
        for seq, size, w in (("A" * 300, 20, 300), ("A" * 300, 2, 256), (("L" * 9 + "K") * 64, 2, 400), (("LKF" * 100), 3, 257),
                             (("LLLK" * 160), 2, 512)):
            calls += 1
            try:
                arr = np.asarray(SP(seq).get_linear_complexity("WF", size, blobLen=w, stepSize=7))
            except Exception as e:  # noqa
                out.append({"key": "rejects-valid-call", "what": "%d-mer WF size %s w=%d raised %r" % (len(seq), size, w, e), "case": dict(case, seq=seq)})
                continue
            K = (len(seq) - w) // 7 + 1
            if arr.shape != (2, K):
                out.append({"key": "shape", "what": "%d-mer w=%d s=7: shape %r" % (len(seq), w, arr.shape), "case": dict(case, seq=seq)})
                continue
            for k in range(K):
                red, A = reduce_ref(seq[7 * k:7 * k + w], size, None)
                if not core.close(arr[1][k], entropy(red, A), 1e-9, 1e-12):
                    out.append({"key": "WF-entropy", "what": "%d-mer size %s w=%d window %d: %r vs entropy %r"
                                % (len(seq), size, w, k, float(arr[1][k]), entropy(red, A)), "case": dict(case, seq=seq[:40] + "...")})
                    break
        for word in case["words"]:
            sub = {"kind": "word", "seq": word, "sizes": case["sizes"], "uas": []}
            o2, c2 = check_case(sub)
            out += [dict(x, case=dict(x["case"], after_long_sequences=True, kind="long-then-short", L=case["L"], words=case["words"],
                                      sizes=case["sizes"])) for x in o2]
            calls += c2
    elif case["kind"] == "inplace-dict":
        # ONE dictionary object, edited in place between calls on ONE live object (progressive coarse-graining from the identity
        # map); every call must see the dictionary as it is now.  Then an in-place edit that makes it invalid: must be rejected.
        from localcider.sequenceParameters import SequenceParameters as SP
        seq = case["host"]
        o = SP(seq)
        d = {a: a for a in T.AA}
        merges = [("R", "K"), ("D", "E"), ("T", "S"), ("I", "L"), ("V", "L"), ("Q", "N"), ("Y", "F"), ("W", "F"), ("H", "K"), ("M", "L")]
        for step, (a, b) in enumerate([(None, None)] + merges):
            if a is not None:
                d[a] = b
            for typ, w in (("WF", 8), ("LZW", 6), ("LC", 8)):
                calls += 1
                try:
                    arr = np.asarray(o.get_linear_complexity(typ, userAlphabet=d, blobLen=w, wordSize=2))
                except Exception as e:  # noqa
                    out.append({"key": "rejects-valid-call", "what": "%s after %d in-place merges raised %r" % (typ, step, e), "case": dict(case, step=step)})
                    continue
                fresh = np.asarray(SP(seq).get_linear_complexity(typ, userAlphabet=dict(d), blobLen=w, wordSize=2))
                if arr.shape != (2, len(seq) - w + 1):
                    out.append({"key": "shape", "what": "%s: %s with blobLen %d on a %d-residue sequence has shape %r" % (seq, typ, w, len(seq), arr.shape),
                                "case": dict(case, step=step, type=typ)})
                    break
                if arr.shape != fresh.shape or not np.allclose(arr, fresh, rtol=1e-12, atol=1e-13):
                    out.append({"key": "user-alphabet-edited-in-place-ignored", "what": "%s: after %d in-place merges of the SAME dictionary object the "
                                "reused object gives %r, a fresh object with a copy of the dictionary %r" % (typ, step, arr[1].tolist()[:4], fresh[1].tolist()[:4]),
                                "case": dict(case, step=step, type=typ)})
                    break
                if typ == "WF":
                    for k in (0, len(seq) - w):
                        red, A = reduce_ref(seq[k:k + w], None, d)
                        if not core.close(arr[1][k], entropy(red, A), 1e-9, 1e-12):
                            out.append({"key": "WF-entropy", "what": "after %d in-place merges window %d: %r vs entropy %r (base %d)"
                                        % (step, k, float(arr[1][k]), entropy(red, A), A), "case": dict(case, step=step)})
                            break
        for bad in ("x", "", None, "KK"):
            d["A"] = bad
            calls += 1
            try:
                r = o.get_linear_complexity("WF", userAlphabet=d, blobLen=8)
                out.append({"key": "invalid-user-alphabet-accepted", "what": "the dictionary accepted before, edited in place so that A maps to %r, was "
                            "accepted again on the same object" % (bad,), "case": dict(case, bad=repr(bad))})
            except Exception:  # noqa
                pass
        d["A"] = "A"
    elif case["kind"] == "lattice":
        from localcider.sequenceParameters import SequenceParameters as SP
        N = case["N"]
        seq = ("ACDEFGHIKLMNPQRSTVWY" * 3)[:N]
        o = SP(seq)
        for w in range(1, N + 1):
            for s in range(1, N + 1):
                calls += 1
                K = (N - w) // s + 1
                try:
                    arr = np.asarray(o.get_linear_complexity("WF", 20, {}, w, s))
                except Exception as e:  # noqa
                    out.append({"key": "rejects-valid-call", "what": "N=%d w=%d s=%d raised %r" % (N, w, s, e), "case": dict(case, w=w, s=s)})
                    continue
                pos = arr[0]
                if arr.shape != (2, K):
                    out.append({"key": "shape", "what": "N=%d w=%d s=%d: shape %r, expected (2,%d)" % (N, w, s, arr.shape, K),
                                "case": dict(case, w=w, s=s)})
                elif any(float(x) != int(x) for x in pos) or any(pos[i] >= pos[i + 1] for i in range(K - 1)) or pos[0] < 1 or pos[-1] > N:
                    out.append({"key": "positions", "what": "N=%d w=%d s=%d: position row %r" % (N, w, s, pos.tolist()),
                                "case": dict(case, w=w, s=s)})
    return out, calls


def shard(cases):
    acc = core.Acc()
    for case in cases:
        with core.istate(case.get("seq", case["kind"])):
            v, calls = check_case(case)
        acc.states += 1
        acc.traces += 1
        acc.transitions += calls
        acc.evaluations += calls
        if case["kind"] == "word" and len(set(case["seq"])) > 1:
            acc.nontrivial += 1
        acc.out(case.get("seq", case.get("N", case.get("L"))))
        for x in v:
            acc.viol(x["key"], x["what"], x["case"])
        if case["kind"] == "word" and len(case["seq"]) >= 4 and len(set(case["seq"])) >= 3:
            acc.sample({"seq": case["seq"], "sizes": case["sizes"], "user_alphabets": case["uas"], "api_calls": calls}, cap=1)
    return acc


def run(tier, seed, t0):
    if tier == "quick":
        N1, N2, sizes, uas, NL = 5, 4, [2, 3, 6, 20], ["two", "rotation", "chain"], 24
    else:
        N1, N2, sizes, uas, NL = 7, 6, list(T.SIZES), ["identity", "two", "three", "rotation", "chain"], 40
    cases = []
    for L in range(1, N1 + 1):
        for w in spaces.shard_words("LKF", L, ""):
            cases.append({"kind": "word", "seq": w, "sizes": sizes, "uas": uas})
    for L in range(1, N2 + 1):
        for w in spaces.shard_words("ASTDE", L, ""):
            cases.append({"kind": "word", "seq": w, "sizes": sizes, "uas": uas})
    for N in range(1, NL + 1):
        cases.append({"kind": "lattice", "N": N})
    # medium-size irregular words: chunks of a de Bruijn sequence (every 5-residue window over three letters occurs)
    for w in spaces.window_complete_chunks("LKF", 5, (31, 53) if tier == "quick" else (19, 31, 53, 64)):
        cases.append({"kind": "word", "seq": w, "sizes": [2, 3, 20] if tier == "quick" else sizes, "uas": uas[:1], "medium": True})
    # ... and over all 20 residues (every ordered pair of residues adjacent somewhere)
    for w in spaces.window_complete_chunks(T.AA, 2, (57,) if tier == "quick" else (29, 57, 81)):
        cases.append({"kind": "word", "seq": w, "sizes": [2, 4, 20] if tier == "quick" else sizes, "uas": uas[:1], "medium": True})
    cases.append({"kind": "inplace-dict", "host": "ACDEFGHIKLMNPQRSTVWYKEKERDTSILVQNYWHM"})
    cases.append({"kind": "long-then-short", "L": 130, "sizes": [2, 3, 4, 6] if tier == "quick" else list(T.SIZES),
                  "words": ["LKF", "LKFF", "KFLKF", "ASTDE", "FFKL"]})
    cases.sort(key=lambda c: -(len(c["seq"]) ** 3 if "seq" in c else (c["N"] ** 2 / 8 if "N" in c else 10 ** 6)))
    nsh = 16 * 10
    acc = core.pmap(shard, [cases[i::nsh] for i in range(nsh)])
    acc.merge(core.run_optimized(PROP, tier))      # the rejection battery once more under `python -O`
    return core.finish(
        PROP, tier, seed, acc, t0,
        rule="every word over {L,K,F} of length 1..%d and over {A,S,T,D,E} of length 1..%d x {WF,LC,LZW} x alphabet sizes %s "
             "x user alphabets %s x every window 1..N+1 x every step 1..N x word sizes 1..6 (LC): shape (2,floor((N-w)/s)+1), "
             "integral strictly increasing positions within 1..N, values in [0,1]; all configurations of a word are asked of ONE live object; locality (each value == the one-window profile "
             "of a fresh object built from that window), WF == Shannon entropy to base alphabet-size of the independently reduced "
             "window (medium words: WF at every window length), the alphabet size given as string / padded string / float / numpy number selects the same reduction, windows with equal reduced strings give equal values (all three types), w>N and 6 unknown types rejected; an array returned earlier must not be modified by a later call; the documented parameter order passed positionally equals the keyword call; extra non-amino-acid keys in a user alphabet do not change the alphabet size; one user-alphabet dictionary object edited in place between calls on one live object (10 merges, then 4 invalidating edits); in a freshly imported "
             "package four 130-residue sequences lacking whole reduced classes are profiled first and a battery of short words afterwards; plus every (N,w,s) with N<=%d on a periodic 20-letter sequence for shape "
             "and position row; non-trivial = words with >=2 distinct letters" % (N1, N2, sizes, uas, NL),
        bounds={"N_LKF": N1, "N_ASTDE": N2, "sizes": sizes, "user_alphabets": uas, "lattice_N": NL},
        assumptions=["documented reduced alphabets pinned in vmc/refmodel/tables.py:REDUCED (also judged by C12)"])


def opt_shards(tier):
    return [(shard, [{"kind": "word", "seq": "LKFLK", "sizes": [2, 20], "uas": ["two", "rotation"]}, {"kind": "word", "seq": "ASTD", "sizes": [3, 6], "uas": ["two"]},
                     {"kind": "inplace-dict", "host": "ACDEFGHIKLMNPQRSTVWYKEKERDTSILVQNYWHM"}])]


def replay(case):
    with core.istate(case.get("seq", case["kind"])):       # the same interpreter state as in the exploration
        return check_case(case)[0]
