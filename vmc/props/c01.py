"""C01 - kappa = delta/delta-max, clamped in (1,1.1), -1 exactly when delta-max is 0, always -1 or in [0,1]."""
import os

from .. import core, spaces
from ..refmodel import charge as R

PROP = "C01"
ORBITS_FILE = os.path.join(core.VERIF, "known", "C01_kappa_gt1_orbits.txt")
_orbits = None


def orbit(pat):
    return min(pat, pat[::-1], R.invert(pat), R.invert(pat)[::-1])


def known_orbits():
    global _orbits
    if _orbits is None:
        _orbits = set()
        if os.path.exists(ORBITS_FILE):
            for l in open(ORBITS_FILE):
                l = l.strip()
                if l and not l.startswith("#"):
                    _orbits.add(l.split()[0])
    return _orbits


def comp_key(pat):
    p, n, z = R.counts(pat)
    lo, hi = min(p, n), max(p, n)
    return "kappa>1:comp=%d,%d,%d" % (lo, hi, z)


def check_case(case):
    from localcider.sequenceParameters import SequenceParameters as SP
    seq = case["seq"]
    pat = R.pattern_of(seq)
    out = []

    def v(key, what, **kw):
        out.append({"key": key, "what": what, "case": dict(case, **kw)})
    try:
        with core.istate(seq):
            o = core.sp(seq)
            k = o.get_kappa()
            d = o.get_delta()
            m = o.get_deltaMax()
    except Exception as e:  # noqa
        v("exception", "kappa/delta/deltaMax raised %r for %s" % (e, seq))
        return out, None
    # (a) -1 exactly when delta-max is 0
    if (k == -1) != (m == 0):
        v("minus-one-iff-dmax0", "%s: kappa=%r but deltaMax=%r" % (seq, k, m), kappa=k, dmax=m)
    elif m != 0:
        r = d / m
        exp = 1.0 if (1.0 < r < 1.1) else r
        # (b) ratio, with the (1, 1.1) clamp
        if not core.close(k, exp, 1e-12, 1e-15):
            v("ratio", "%s: kappa=%r but delta/deltaMax=%r/%r -> expected %r" % (seq, k, d, m, exp),
              kappa=k, delta=d, dmax=m, expected=exp)
    # (e) delta asked AFTER kappa on the same object is still the Das-Pappu delta of the sequence (exact reference)
    if len(seq) <= 14:
        ref_d = float(R.delta(pat))
        if not abs(float(d) - ref_d) <= 1e-12:
            v("delta-after-kappa", "%s: get_delta() after get_kappa() on the same object is %r, the definition gives %r" % (seq, d, ref_d),
              delta=d, expected=ref_d)
    # (c) range
    if not (k == -1 or (0.0 <= k <= 1.0)):
        ob = orbit(pat)
        if ob in known_orbits():
            v(comp_key(pat), "%s: kappa=%r outside [0,1] (known heuristic delta-max underestimate)" % (seq, k),
              kappa=k, orbit=ob)
        else:
            import hashlib
            obk = ob if len(ob) <= 40 else "len%d:%s" % (len(ob), hashlib.sha1(ob.encode()).hexdigest()[:12])
            v("kappa-out-of-range:" + obk, "%s: kappa=%r is neither -1 nor in [0,1]"
              % (seq if len(seq) <= 80 else seq[:60] + "...(%d residues)" % len(seq), k), kappa=k, orbit=ob)
    # delta-max as seen AFTER get_kappa on the same object must still be the delta-max of a fresh object
    if k != -1 and k >= 1.0 and not case.get("fresh"):
        try:
            m2 = SP(seq).get_deltaMax()
            if m2 != m:
                v("fresh-object-differs", "%s: get_deltaMax() after get_kappa() on the same object is %r, a fresh object gives %r"
                  % (seq, m, m2))
        except Exception as e:  # noqa
            v("exception", "fresh-object get_deltaMax raised %r for %s" % (e, seq))
    # (d) order independence guard for the oracle itself (C15 judges histories)
    if case.get("fresh"):
        try:
            d2 = SP(seq).get_delta()
            m2 = SP(seq).get_deltaMax()
            k2 = SP(seq).get_kappa()
            if d2 != d or m2 != m or k2 != k:
                v("fresh-object-differs", "%s: fresh objects give delta=%r dmax=%r kappa=%r vs %r %r %r"
                  % (seq, d2, m2, k2, d, m, k))
        except Exception as e:  # noqa
            v("exception", "fresh-object calls raised %r for %s" % (e, seq))
    return out, (k, d, m)


def _consume(acc, seq, fresh):
    case = {"kind": "kappa", "seq": seq, "fresh": fresh}
    v, res = check_case(case)
    acc.states += 1
    acc.traces += 1
    acc.transitions += 6 if fresh else 3
    acc.evaluations += 1
    for x in v:
        acc.viol(x["key"], x["what"], x["case"])
        if x["key"].startswith("kappa"):
            acc.bump("kappa_gt1_cases")
            if os.environ.get("VMC_C01_DUMP"):
                acc.extra.setdefault("gt1_orbits", set()).add(x["case"]["orbit"])
    if res is not None:
        k, d, m = res
        if k != -1:
            acc.nontrivial += 1
            acc.out(round(k, 9))
            if 0.2 < k < 0.9:
                acc.sample({"seq": seq, "kappa": k, "delta": d, "deltaMax": m}, cap=1)
        else:
            acc.out(-1)
            acc.bump("kappa_minus1")
        if k == 1.0:
            acc.bump("kappa_exactly_1")


def shard(s):
    acc = core.Acc()
    if s[0] == "DB":
        for pat in spaces.window_complete_chunks(R.SYM, 6, s[1]):
            _consume(acc, R.spell_rotating(pat, len(pat)), False)
        return acc
    if s[0] == "BIG":
        _consume(acc, R.spell_rotating(BIG[s[1]], s[1]), False)
        return acc
    if s[0] == "LOP":
        for pat in lopsided(s[1], s[2])[s[3]::s[4]]:
            _consume(acc, R.spell_rotating(pat, len(pat) % 2), False)
        return acc
    if s[0] == "P":
        _, L, pre = s
        for pat in spaces.shard_words(R.SYM, L, pre):
            _consume(acc, R.spell_base(pat), L <= 8)
    else:
        _, comp, lo, hi = s
        for i, pat in enumerate(R.arrangements(*comp)):
            if lo <= i < hi:
                _consume(acc, R.spell_base(pat), False)
            elif i >= hi:
                break
    return acc


# more than 256 residues of one class, arranged away from the maximally segregated form (kappa must stay within [0,1])
BIG = ["-" * 150 + "000" + "-" * 150, "+" * 129 + "00" + "+" * 129, "+-" * 130 + "0" * 5 + "+-" * 20, "+" * 260 + "-" * 12 + "+" * 30,
       "0" * 140 + "+" * 30 + "0" * 140 + "-" * 30, ("+" * 9 + "0") * 30, "-" * 100 + "0" * 17 + "-" * 160, "+" * 257 + "0" + "-" * 3]


def lopsided(kind, tier):
    """Neutral-free and nearly neutral-free lopsided patterns (either sign as the majority):
    'scatter': 1 minority residue at every position of a majority of total 5..40 (thorough 60), 2 minority residues at every
               pair of positions up to total 22 (30);
    'block'  : a minority block of 1..8 inserted at offset 0..6 into a majority of 20..68 step 4 (thorough: every size 12..90) -
               the arrangements the delta-max search itself looks at, where kappa is at or near 1."""
    out = []
    inv = str.maketrans("+-", "-+")
    if kind == "scatter":
        n1, n2 = (40, 22) if tier == "quick" else (60, 30)
        for N in range(5, n1 + 1):
            for i in range(N):
                out.append("+" * i + "-" + "+" * (N - 1 - i))
        for N in range(5, n2 + 1):
            for i in range(N):
                for j in range(i + 1, N):
                    a = ["+"] * N
                    a[i] = a[j] = "-"
                    out.append("".join(a))
        # one charged residue (and two adjacent ones) at every position of an otherwise neutral chain
        for N in range(6, n1 + 1):
            for i in range(N):
                out.append("0" * i + "+" + "0" * (N - 1 - i))
                if i + 1 < N:
                    out.append("0" * i + "++" + "0" * (N - 2 - i))
    elif kind == "flank":
        # a stretch of 7..17 neutral residues in front of (or behind) adjacent charge blocks with a tiny minority: the arrangements the
        # few-neutrals search must not skip
        for z in ((7, 9, 12, 17) if tier == "quick" else range(7, 18)):
            for m in (1, 2):
                for M in ((20, 40, 60) if tier == "quick" else (12, 20, 30, 40, 60, 80)):
                    out.append("0" * z + "+" * m + "-" * M)
                    out.append("-" * M + "+" * m + "0" * z)
                    out.append("0" * (z // 2) + "+" * m + "-" * M + "0" * (z - z // 2))
    else:
        Ms = range(20, 72, 4) if tier == "quick" else range(12, 91)
        for m in range(1, 9):
            for M in Ms:
                for off in range(0, 7):
                    if off <= M:
                        out.append("+" * off + "-" * m + "+" * (M - off))
    return out + [p.translate(inv) for p in out]


def sparse_shards(tier):
    out = []
    if tier == "quick":
        comps = []
        for N in range(10, 21):
            for c in [(1, N - 2, 1), (N - 2, 1, 1), (1, 1, N - 2)]:
                comps.append(c)
    else:
        comps = [c for c in R.compositions(20, 10) if R.multinomial(*c) <= 1500]
    for c in comps:
        m = R.multinomial(*c)
        step = 200
        for lo in range(0, m, step):
            out.append(("S", c, lo, min(m, lo + step)))
    return out, comps


def run(tier, seed, t0):
    L = 10 if tier == "quick" else 12
    shards = [("P",) + s for s in spaces.word_shards(R.SYM, 1, L, 4 if L <= 10 else 5)]
    sp, comps = sparse_shards(tier)
    shards += sp
    shards += [("LOP", kind, tier, i, 24) for kind in ("scatter", "block") for i in range(24)]
    shards += [("LOP", "flank", tier, i, 16) for i in range(16)]
    shards = [("BIG", i) for i in range(len(BIG))] + shards
    shards += [("DB", (L_,)) for L_ in ((23, 41) if tier == "quick" else (17, 23, 31, 41, 61, 97))]
    acc = core.pmap(shard, shards)
    if os.environ.get("VMC_C01_DUMP"):
        with open(os.environ["VMC_C01_DUMP"], "w") as f:
            for ob in sorted(acc.extra.get("gt1_orbits", ()), key=lambda x: (len(x), x)):
                f.write(ob + "\n")
    acc.extra.pop("gt1_orbits", None)
    return core.finish(
        PROP, tier, seed, acc, t0,
        rule="every charge pattern over {+,-,0} of length 1..%d in K/E/G spelling, plus ALL arrangements of %d sparse "
             "compositions of total 10..20 (%s), plus lopsided neutral-free families (one minority residue at every position of a majority up to total 40/60, two at every pair up to 22/30; one charged residue or two adjacent ones at every position of a neutral chain up to 40/60; a minority block of 1..8 at offsets 0..6 inside a majority of 20..68/12..90; both signs; 7..17 neutral residues flanking adjacent blocks with a minority of 1-2 against 20-60), plus window-complete medium words, plus eight 260-340-residue patterns with more than 256 residues of one class; each state = one sequence, 3 real calls (get_kappa, get_delta, "
             "get_deltaMax; 6 with fresh-object repetition for length<=8) judged by clauses (a) -1 iff deltaMax==0, "
             "(b) kappa == clamp(delta/deltaMax), (c) kappa in {-1} U [0,1]; non-trivial = kappa != -1; outcomes = "
             "distinct kappa values" % (L, len(comps), "(1,n,1),(n,1,1),(1,1,n) slices" if tier == "quick"
                                         else "every composition with <=1500 arrangements"),
        bounds={"L": L, "sparse_N": [10, 20], "sparse_compositions": len(comps),
                "sparse_max_arrangements": None if tier == "quick" else 1500},
        assumptions=["clauses (a),(b) use delta and deltaMax as returned by the same API; their values are judged by C02/C03",
                     "known kappa>1 orbits are read from known/C01_kappa_gt1_orbits.txt (never written at run time)"])


def replay(case):
    return check_case(case)[0]
