"""C05 - patterning parameters see only charge classes; invariant under reversal and charge inversion."""
from .. import core, spaces
from ..refmodel import charge as R
from ..refmodel import tables as T

PROP = "C05"
TOL = (1e-9, 1e-12)
XCLASS = "PEDKR"
OCLASS = "".join(a for a in T.AA if a not in XCLASS)


def vec(seq, omega_only=False):
    from localcider.sequenceParameters import SequenceParameters as SP
    with core.istate(seq):
        o = core.sp(seq)
        if omega_only:
            return {"Omega": o.get_Omega()}
        return {"kappa": o.get_kappa(), "delta": o.get_delta(), "deltaMax": o.get_deltaMax(), "SCD": o.get_SCD(),
                "Omega": o.get_Omega()}


def swap_charge(seq):
    return seq.translate(str.maketrans("KRDE", "EDRK"))


def variants_pattern(seq):
    """(label, variant, names of the outputs that must be unchanged)."""
    four = ("kappa", "delta", "deltaMax", "SCD")
    five = four + ("Omega",)
    yield "reversal", seq[::-1], five
    yield "inversion", swap_charge(seq), five
    for i, a in enumerate(seq):
        if a in "KR":
            alts = "KR".replace(a, "")
        elif a in "DE":
            alts = "DE".replace(a, "")
        else:
            alts = T.NEUTRAL.replace(a, "")
        for b in alts:
            yield "site%d:%s>%s" % (i, a, b), seq[:i] + b + seq[i + 1:], four
    pat = R.pattern_of(seq)
    for k in range(16):
        s2 = R.spell_covering(pat, k)
        if s2 != seq:
            yield "spelling%d" % k, s2, four


def variants_medium(seq):
    """Fewer variants for medium-size irregular sequences: reversal, inversion, four all-site respellings, every 4th site."""
    four = ("kappa", "delta", "deltaMax", "SCD")
    five = four + ("Omega",)
    yield "reversal", seq[::-1], five
    yield "inversion", swap_charge(seq), five
    pat = R.pattern_of(seq)
    for k in (1, 6, 11, 15):
        s2 = R.spell_covering(pat, k)
        if s2 != seq:
            yield "spelling%d" % k, s2, four
    for i in range(len(seq) % 4, len(seq), 4):
        a = seq[i]
        alts = "KR".replace(a, "") if a in "KR" else ("DE".replace(a, "") if a in "DE" else T.NEUTRAL.replace(a, "")[(i % 15):(i % 15) + 1])
        for b in alts:
            yield "site%d:%s>%s" % (i, a, b), seq[:i] + b + seq[i + 1:], four


def variants_omega(seq):
    one = ("Omega",)
    yield "reversal", seq[::-1], one
    yield "inversion", swap_charge(seq), one
    for i, a in enumerate(seq):
        alts = (XCLASS if a in XCLASS else OCLASS).replace(a, "")
        for b in alts:
            yield "site%d:%s>%s" % (i, a, b), seq[:i] + b + seq[i + 1:], one


def check_case(case):
    seq = case["seq"]
    omega = case["kind"] == "omega"
    out = []
    n = 0
    try:
        base = vec(seq, omega)
    except Exception as e:  # noqa
        return [{"key": "exception", "what": "%r on %s" % (e, seq), "case": case}], 0, None
    gen = variants_omega(seq) if omega else (variants_medium(seq) if case["kind"] == "medium" else variants_pattern(seq))
    for label, s2, names in gen:
        n += 1
        try:
            v2 = vec(s2, omega)
        except Exception as e:  # noqa
            out.append({"key": "exception", "what": "%r on variant %s of %s" % (e, s2, seq), "case": dict(case, variant=s2)})
            continue
        for nm in names:
            if not core.close(v2[nm], base[nm], *TOL):
                kind = label.split(":")[0].rstrip("0123456789")
                out.append({"key": "%s-changes-%s" % (kind, nm),
                            "what": "%s: %s(%s)=%r but %s(%s)=%r" % (label, nm, seq, base[nm], nm, s2, v2[nm]),
                            "case": dict(case, variant=s2, label=label, param=nm)})
    return out, n, base


def shard(s):
    acc = core.Acc()
    kind, L, pre = s
    if kind == "medium":
        for w in spaces.window_complete_chunks(R.SYM, 6, (L,)):
            seq = R.spell_base(w)
            v, n, base = check_case({"kind": "medium", "seq": seq})
            acc.states += 1 + n
            acc.traces += 1
            acc.transitions += (1 + n) * 5
            acc.evaluations += n
            if base is not None and base["kappa"] not in (-1, 0):
                acc.nontrivial += 1
                acc.out(("medium", round(base["kappa"], 9)))
            for x in v:
                acc.viol(x["key"], x["what"], x["case"])
        return acc
    alpha = R.SYM if kind == "pattern" else "XO"
    for w in spaces.shard_words(alpha, L, pre):
        if kind == "pattern":
            seq = R.spell_base(w)
        else:
            seq = w.replace("X", "P").replace("O", "G")
            # rotate the representatives so every residue of both classes appears as a base letter too
            seq = "".join((XCLASS[(i + L) % 5] if c == "X" else OCLASS[(i + L) % 15]) for i, c in enumerate(w))
        v, n, base = check_case({"kind": kind, "seq": seq})
        acc.states += 1 + n
        acc.traces += 1
        acc.transitions += (1 + n) * (1 if kind == "omega" else 5)
        acc.evaluations += n
        if base is not None:
            key = base["Omega"] if kind == "omega" else base["kappa"]
            if key not in (-1, 0):
                acc.nontrivial += 1
            acc.out((kind, round(key, 9)))
            if key not in (-1, 0) and L >= 5:
                acc.sample({"kind": kind, "seq": seq, "variants": n, "base": base}, cap=1)
        for x in v:
            acc.viol(x["key"], x["what"], x["case"])
    return acc


def run(tier, seed, t0):
    L, L2 = (6, 8) if tier == "quick" else (8, 11)
    shards = [("pattern",) + s for s in spaces.word_shards(R.SYM, 1, L, 3)]
    shards += [("omega",) + s for s in spaces.word_shards("XO", 1, L2, 4)]
    shards += [("medium", L_, "") for L_ in ((29,) if tier == "quick" else (17, 29, 43, 71))]
    acc = core.pmap(shard, shards)
    return core.finish(
        PROP, tier, seed, acc, t0,
        rule="every charge pattern of length 1..%d (K/E/G) with its FULL orbit of single-site class-preserving substitutions "
             "(K<->R, D<->E, neutral -> each of the other 15 neutrals), 16 all-site respellings, reversal and charge inversion: "
             "kappa, delta, deltaMax, SCD (and Omega for reversal/inversion) of the variant must equal those of the base; every "
             "word over {PEDKR-class, other-class} of length 1..%d with all single-site within-class substitutions, reversal, "
             "inversion for Omega. No symmetry reduction. state = one sequence evaluated; non-trivial = base sequences whose "
             "kappa (resp. Omega) is defined and non-zero" % (L, L2),
        bounds={"L_pattern": L, "L_omega": L2, "tolerance_rel": TOL[0]},
        assumptions=["relations between two real API evaluations; no reference values involved"])


def replay(case):
    return check_case(case)[0]
