"""C19 - plots place sequences at their true coordinates, in the regions that classify them; linear plots = profiles."""
import itertools
import os
import shutil
import tempfile
from fractions import Fraction as F

import numpy as np

from .. import core
from ..refmodel import charge as R

PROP = "C19"
TOL = 1e-9
PHASE_LABELS = ("Fraction of positively charged residues", "Fraction of negatively charged residues")
UV_LABELS = ("Mean net charge", "Mean hydropathy <H>")
SEQS = ["KKEEGGSSPP", "KRKRKRKRGS", "GSGSGSGSGSGSGSGSKE"]
LONGLABEL = "a rather long label for this point"
TIES = ["KKKEGGSSPP", "EEEKGGSSPP", "KKKEAGSSPP"]       # markers sharing an x-coordinate on either diagram (f+ .3/.1/.3, |NCPR| .2/.2/.2)
EXTREME = ["KKKKKKKKKE", "RRRRRRRRRRRR", "EEEEDEEEEK"]      # markers beyond 0.8 on either axis of either diagram


def plt():
    import matplotlib.pyplot as p
    return p


def SP(s):
    from localcider.sequenceParameters import SequenceParameters
    return SequenceParameters(s)


def frac(x):
    """A drawn vertex as the decimal it denotes (0.325 -> 13/40), not its binary expansion."""
    return F(repr(float(x)))


def inspect(fig):
    ax = fig.axes[0] if fig.axes else None
    if ax is None:
        return None
    from matplotlib.patches import Polygon, Rectangle
    d = {
        "naxes": len(fig.axes),
        "title": ax.get_title(), "xlabel": ax.get_xlabel(), "ylabel": ax.get_ylabel(),
        "xlim": tuple(float(v) for v in ax.get_xlim()), "ylim": tuple(float(v) for v in ax.get_ylim()),
        "markers": [tuple(float(v) for v in pt) for c in ax.collections for pt in np.asarray(c.get_offsets())],
        "texts": [(t.get_text(), float(t.get_fontsize())) for t in ax.texts],
        "polygons": [[tuple(float(v) for v in xy) for xy in p.get_xy()] for p in ax.patches if isinstance(p, Polygon)],
        "bars": [(float(p.get_x() + p.get_width() / 2.0), float(p.get_height())) for p in ax.patches if isinstance(p, Rectangle)],
        "legend": ax.get_legend() is not None,
    }
    return d


def fig_of(ret):
    """The figure behind a getFig return value (the package returns the pyplot module)."""
    if ret is None:
        return None
    if hasattr(ret, "gcf"):
        return ret.gcf()
    if hasattr(ret, "axes"):
        return ret
    return None


def inside_closed(poly, pt):
    """pt (Fractions) inside or on the boundary of the convex polygon poly (list of Fraction pairs)."""
    sgn = 0
    n = len(poly)
    for i in range(n):
        a, b = poly[i], poly[(i + 1) % n]
        if a == b:
            continue
        cr = (b[0] - a[0]) * (pt[1] - a[1]) - (b[1] - a[1]) * (pt[0] - a[0])
        if cr == 0:
            continue
        s = 1 if cr > 0 else -1
        if sgn == 0:
            sgn = s
        elif s != sgn:
            return False
    return True


# ------------------------------------------------------------------------------------------------ region agreement
def check_region(case):
    p, n, z = case["comp"]
    N = p + n + z
    out = []

    def v(key, what):
        out.append({"key": key, "what": what, "case": case})
    seq = R.spell_rotating("+" * p + "0" * z + "-" * n, N)
    o = SP(seq)
    P = plt()
    P.close("all")
    try:
        ret = o.show_phaseDiagramPlot(getFig=True)
        fig = fig_of(ret)
        if fig is None:
            v("getFig-returns-nothing:show_phaseDiagramPlot", "show_phaseDiagramPlot(getFig=True) returned %r" % (ret,))
            fig = P.gcf()
        d = inspect(fig)
        region = o.get_phasePlotRegion()
    except Exception as e:  # noqa
        v("plot-raises", "show_phaseDiagramPlot on %s raised %r" % (seq, e))
        P.close("all")
        return out, None
    finally:
        pass
    P.close("all")
    if d is None or len(d["markers"]) != 1:
        v("marker-count", "%s: %r markers drawn" % (seq, None if d is None else len(d["markers"])))
        return out, region
    mx, my = d["markers"][0]
    if abs(mx - p / N) > TOL or abs(my - n / N) > TOL:
        v("marker-position:phase", "%s: marker at (%r,%r), (f+,f-) = (%r,%r)" % (seq, mx, my, p / N, n / N))
    if len(d["polygons"]) != 5:
        v("region-polygons", "%d region polygons drawn" % len(d["polygons"]))
        return out, region
    poly = [(frac(x), frac(y)) for x, y in d["polygons"][region - 1]]
    if not inside_closed(poly, (F(p, N), F(n, N))):
        v("marker-outside-its-region", "(n+,n-,N)=(%d,%d,%d): classified region %d but the marker (%s,%s) lies outside the drawn "
          "polygon %d %r" % (p, n, N, region, F(p, N), F(n, N), region, d["polygons"][region - 1]))
    return out, region


# ------------------------------------------------------------------------------------------------ entry points x configurations
def entry_points():
    """name -> (kind, nseq, callable(objs, cfg, mode) -> return value); mode 'show' or 'save'."""
    from localcider import plots

    def kw(cfg, multi=False):
        d = dict(title=cfg["title"], legendOn=cfg["legend"], xLim=cfg["xLim"], yLim=cfg["yLim"], fontSize=cfg["font"])
        if cfg["title"] is None:
            del d["title"]
        return d

    def lab(cfg, n, name):
        l = cfg["label"]
        if n == 1:
            return {"label": l}
        key = "label" if name in ("plots.show_multiple_phasePlot",) else "label_list"
        if l is None:
            return {}
        return {key: [(l + str(i)) if l else "" for i in range(n)]}
    eps = {}

    def add(name, kind, n, show, save):
        eps[name] = (kind, n, show, save)
    add("SP.phaseDiagramPlot", "phase", 1,
        lambda o, c, g: o[0].show_phaseDiagramPlot(getFig=g, label=c["label"] or "", **kw(c)),
        lambda o, c, fn, fmt: o[0].save_phaseDiagramPlot(fn, label=c["label"] or "", saveFormat=fmt, **kw(c)))
    add("SP.uverskyPlot", "uversky", 1,
        lambda o, c, g: o[0].show_uverskyPlot(getFig=g, label=c["label"] or "", **kw(c)),
        lambda o, c, fn, fmt: o[0].save_uverskyPlot(fn, label=c["label"] or "", saveFormat=fmt, **kw(c)))
    add("plots.single_phasePlot", "phase", 1,
        lambda o, c, g: plots.show_single_phasePlot(o[0].get_fraction_positive(), o[0].get_fraction_negative(), getFig=g,
                                                    label=c["label"] or "", **kw(c)),
        lambda o, c, fn, fmt: plots.save_single_phasePlot(o[0].get_fraction_positive(), o[0].get_fraction_negative(), fn,
                                                          label=c["label"] or "", saveFormat=fmt, **kw(c)))
    add("plots.single_uverskyPlot", "uversky", 1,
        lambda o, c, g: plots.show_single_uverskyPlot(o[0].get_uversky_hydropathy(), o[0].get_mean_net_charge(), getFig=g,
                                                      label=c["label"] or "", **kw(c)),
        lambda o, c, fn, fmt: plots.save_single_uverskyPlot(o[0].get_uversky_hydropathy(), o[0].get_mean_net_charge(), fn,
                                                            label=c["label"] or "", saveFormat=fmt, **kw(c)))
    add("plots.multiple_phasePlot", "phase", 3,
        lambda o, c, g: plots.show_multiple_phasePlot([x.get_fraction_positive() for x in o], [x.get_fraction_negative() for x in o],
                                                      getFig=g, **lab(c, 3, "plots.show_multiple_phasePlot"), **kw(c)),
        lambda o, c, fn, fmt: plots.save_multiple_phasePlot([x.get_fraction_positive() for x in o], [x.get_fraction_negative() for x in o],
                                                            fn, saveFormat=fmt, **lab(c, 3, "save"), **kw(c)))
    add("plots.multiple_phasePlot2", "phase", 3,
        lambda o, c, g: plots.show_multiple_phasePlot2(list(o), getFig=g, **lab(c, 3, "2"), **kw(c)),
        lambda o, c, fn, fmt: plots.save_multiple_phasePlot2(list(o), fn, saveFormat=fmt, **lab(c, 3, "2"), **kw(c)))
    add("plots.multiple_uverskyPlot", "uversky", 3,
        lambda o, c, g: plots.show_multiple_uverskyPlot([x.get_uversky_hydropathy() for x in o], [x.get_mean_net_charge() for x in o],
                                                        getFig=g, **lab(c, 3, "u"), **kw(c)),
        lambda o, c, fn, fmt: plots.save_multiple_uverskyPlot([x.get_uversky_hydropathy() for x in o], [x.get_mean_net_charge() for x in o],
                                                              fn, saveFormat=fmt, **lab(c, 3, "u"), **kw(c)))
    add("plots.multiple_uverskyPlot2", "uversky", 3,
        lambda o, c, g: plots.show_multiple_uverskyPlot2(list(o), getFig=g, **lab(c, 3, "u2"), **kw(c)),
        lambda o, c, fn, fmt: plots.save_multiple_uverskyPlot2(list(o), fn, saveFormat=fmt, **lab(c, 3, "u2"), **kw(c)))
    return eps


def expected_markers(kind, objs):
    if kind == "phase":
        return [(o.get_fraction_positive(), o.get_fraction_negative()) for o in objs]
    return [(o.get_mean_net_charge(), o.get_uversky_hydropathy()) for o in objs]


def judge_fig(d, kind, objs, cfg, ep, how, case, out):
    def v(key, what):
        out.append({"key": key, "what": what, "case": case})
    tag = "%s[%s]" % (ep, how)
    if d is None:
        v("no-axes:" + ep, "%s drew nothing" % tag)
        return
    exp = expected_markers(kind, objs)
    if len(d["markers"]) != len(exp):
        v("marker-count:" + ep, "%s: %d markers for %d sequences" % (tag, len(d["markers"]), len(exp)))
    else:
        for (mx, my), (ex, ey) in zip(d["markers"], exp):
            if abs(mx - ex) > TOL or abs(my - ey) > TOL:
                v("marker-position:" + kind, "%s: marker at (%r,%r), expected (%r,%r)" % (tag, mx, my, ex, ey))
                break
    want_title = cfg["title"] if cfg["title"] is not None else ("Diagram of states" if kind == "phase" else "Uversky plot")
    if d["title"] != want_title:
        v("title:" + ep, "%s: title %r, requested %r" % (tag, d["title"], want_title))
    labs = PHASE_LABELS if kind == "phase" else UV_LABELS
    if (d["xlabel"], d["ylabel"]) != labs:
        v("axis-labels:" + kind, "%s: axis labels %r" % (tag, (d["xlabel"], d["ylabel"])))
    if abs(d["xlim"][0]) > TOL or abs(d["xlim"][1] - cfg["xLim"]) > TOL or abs(d["ylim"][0]) > TOL or abs(d["ylim"][1] - cfg["yLim"]) > TOL:
        v("axis-limits:" + ep, "%s: limits x=%r y=%r, requested [0,%r] [0,%r]" % (tag, d["xlim"], d["ylim"], cfg["xLim"], cfg["yLim"]))
    l = cfg["label"]
    if l:
        want = [l] if len(objs) == 1 else [l + str(i) for i in range(len(objs))]
        got = [t for t, _ in d["texts"] if t]
        if got != want:
            v("point-labels:" + ep, "%s: labels drawn %r, requested %r" % (tag, got, want))
        elif any(abs(fs - cfg["font"]) > 1e-9 for t, fs in d["texts"] if t):
            v("label-font:" + ep, "%s: label font sizes %r, requested %r" % (tag, [fs for _, fs in d["texts"]], cfg["font"]))
    npoly = 5 if kind == "phase" else 2
    if len(d["polygons"]) != npoly:
        v("region-polygons:" + kind, "%s: %d polygons drawn, expected %d" % (tag, len(d["polygons"]), npoly))


class SaveSpy:
    """Inspect the figure at the moment savefig is called; optionally write through."""

    def __init__(self, through):
        self.through = through
        self.seen = []

    def __enter__(self):
        P = plt()
        self.orig = P.savefig
        spy = self

        def savefig(*a, **k):
            spy.seen.append((inspect(P.gcf()), a, k))
            if spy.through:
                return spy.orig(*a, **k)
        P.savefig = savefig
        return self

    def __exit__(self, *exc):
        plt().savefig = self.orig


def check_config(case):
    ep, cfg = case["ep"], case["cfg"]
    eps = entry_points()
    kind, n, show, save = eps[ep]
    out = []
    calls = 0
    P = plt()

    def v(key, what):
        out.append({"key": key, "what": what, "case": case})
    fam = TIES if case.get("family") == "ties" else SEQS
    for si in range(len(fam) if n == 1 else 1):
        objs = [SP(fam[si])] if n == 1 else [SP(s) for s in fam]
        for g in (True, False):
            P.close("all")
            calls += 1
            try:
                ret = show(objs, cfg, g)
            except Exception as e:  # noqa
                v("plot-raises:" + ep, "%s show(getFig=%s) with %r raised %r" % (ep, g, cfg, e))
                P.close("all")
                continue
            if g:
                fig = fig_of(ret)
                if fig is None:
                    v("getFig-returns-nothing:" + ep, "%s(getFig=True) returned %r" % (ep, ret))
                    fig = P.gcf()
            else:
                fig = P.gcf()
            judge_fig(inspect(fig), kind, objs, cfg, ep, "show,getFig=%s" % g, case, out)
            P.close("all")
        fmt = case.get("fmt", "png")
        through = case.get("write", False)
        bare = through and case.get("bare")
        base_dir = None
        if bare:
            # a bare file name, with the working directory on another file system than the system temp directory (if there is one)
            for cand in ("/dev/shm", os.path.expanduser("~"), "/var/tmp"):
                try:
                    if os.path.isdir(cand) and os.access(cand, os.W_OK) and os.stat(cand).st_dev != os.stat(tempfile.gettempdir()).st_dev:
                        base_dir = cand
                        break
                except OSError:
                    pass
        tmp = tempfile.mkdtemp(prefix="vmc_c19_", dir=base_dir) if through else None
        old_cwd = os.getcwd()
        try:
            if bare:
                os.chdir(tmp)
                if case.get("existing"):
                    open("fig." + fmt, "w").write("older file")
            fn = ("fig." + fmt if bare else os.path.join(tmp, "fig." + fmt)) if through else "/nonexistent/vmc_c19." + fmt
            calls += 1
            with SaveSpy(through) as spy:
                try:
                    save(objs, cfg, fn, fmt)
                except Exception as e:  # noqa
                    v("plot-raises:" + ep, "%s save(%s) with %r raised %r" % (ep, fmt, cfg, e))
            if not spy.seen:
                v("nothing-saved:" + ep, "%s save did not call savefig" % ep)
            else:
                judge_fig(spy.seen[-1][0], kind, objs, cfg, ep, "save", case, out)
                if through and not (os.path.exists(fn) and os.path.getsize(fn) > 0):
                    v("file-not-written:" + ep, "%s save wrote no file" % ep)
        finally:
            os.chdir(old_cwd)
            if tmp:
                shutil.rmtree(tmp, True)
            P.close("all")
    return out, calls


# ------------------------------------------------------------------------------------------------ linear plots
LINEAR = [("NCPR", "show_linearNCPR", "save_linearNCPR", "get_linear_NCPR"),
          ("FCR", "show_linearFCR", "save_linearFCR", "get_linear_FCR"),
          ("Sigma", "show_linearSigma", "save_linearSigma", "get_linear_sigma"),
          ("Hydropathy", "show_linearHydropathy", "save_linearHydropathy", "get_linear_hydropathy")]


def check_linear(case):
    seq, w = case["seq"], case["w"]
    out = []
    calls = 0
    P = plt()

    def v(key, what):
        out.append({"key": key, "what": what, "case": case})

    def judge(d, name, how, prof):
        if d is None:
            v("no-axes:linear" + name, "%s %s drew nothing" % (name, how))
            return
        bars = d["bars"]
        N = len(seq)
        if len(bars) != N:
            v("bar-count:" + name, "%s %s on %s (w=%d): %d bars for %d residues" % (name, how, seq, w, len(bars), N))
            return
        for i, (x, h) in enumerate(bars):
            if abs(x - (i + 1)) > 1e-9 or abs(h - prof[1][i]) > 1e-9:
                v("bar-geometry:" + name, "%s %s on %s (w=%d): bar %d centred at %r with height %r, profile says position %d value %r"
                  % (name, how, seq, w, i, x, h, i + 1, float(prof[1][i])))
                return
    for name, show, save, getter in LINEAR:
        o = SP(seq)
        prof = np.asarray(getattr(o, getter)(w))
        for g in (True, False):
            P.close("all")
            calls += 1
            try:
                ret = getattr(o, show)(w, getFig=g)
            except Exception as e:  # noqa
                v("plot-raises:linear" + name, "%s(%d, getFig=%s) on %s raised %r" % (show, w, g, seq, e))
                continue
            fig = fig_of(ret) if g else P.gcf()
            if g and fig is None:
                v("getFig-returns-nothing:" + show, "%s(getFig=True) returned %r" % (show, ret))
                fig = P.gcf()
            judge(inspect(fig), name, "show,getFig=%s" % g, prof)
        P.close("all")
        calls += 1
        with SaveSpy(False) as spy:
            try:
                getattr(o, save)("/nonexistent/x.png", w)
            except Exception as e:  # noqa
                v("plot-raises:linear" + name, "%s on %s raised %r" % (save, seq, e))
        if spy.seen:
            judge(spy.seen[-1][0], name, "save", prof)
        else:
            v("nothing-saved:linear" + name, "%s did not call savefig" % save)
        P.close("all")
    return out, calls


def check_counts(case):
    """The multi-sequence entry points called several times in one process with different numbers of sequences."""
    eps = entry_points()
    kind, n, show, save = eps[case["ep"]]
    out = []
    calls = 0
    P = plt()
    pool = ["KKEEGGSSPP", "KRKRKRKRGS", "GSGSGSGSGSGSGSGSKE", "EEEEEKGSGS", "PPPPKDGSTY"]
    cfg = {"label": None, "title": None, "legend": True, "xLim": 1, "yLim": 1, "font": 10}
    for cnt in case["counts"]:
        objs = [SP(s_) for s_ in pool[:cnt]]
        global SEQS
        for g in (True, False):
            P.close("all")
            calls += 1
            try:
                ret = show(objs, cfg, g)
            except Exception as e:  # noqa
                out.append({"key": "plot-raises:" + case["ep"], "what": "%s with %d unlabelled sequences (after calls with %r) raised %r"
                            % (case["ep"], cnt, case["counts"], e), "case": case})
                P.close("all")
                continue
            fig = fig_of(ret) if g else P.gcf()
            judge_fig(inspect(fig if fig is not None else P.gcf()), kind, objs, cfg, case["ep"], "show,%d seqs" % cnt, case, out)
            P.close("all")
        calls += 1
        with SaveSpy(False) as spy:
            try:
                save(objs, cfg, "/nonexistent/x.png", "png")
            except Exception as e:  # noqa
                out.append({"key": "plot-raises:" + case["ep"], "what": "%s save with %d unlabelled sequences raised %r"
                            % (case["ep"], cnt, e), "case": case})
        if spy.seen:
            judge_fig(spy.seen[-1][0], kind, objs, cfg, case["ep"], "save,%d seqs" % cnt, case, out)
        P.close("all")
    return out, calls


def check_after_rejected(case):
    """A multi-sequence call that is rejected (invalid point in the middle) followed - without closing anything - by other plots."""
    from localcider import plots
    out = []
    calls = 0
    P = plt()
    P.close("all")
    objs3 = [SP(s_) for s_ in SEQS]
    cfg = {"label": None, "title": None, "legend": True, "xLim": 1, "yLim": 1, "font": 10}
    eps = entry_points()
    bad_calls = [
        lambda: plots.show_multiple_phasePlot([0.3, 0.2, 35, 0.1], [0.3, 0.1, 0.1, 0.2], getFig=True),
        lambda: plots.save_multiple_phasePlot([0.3, 0.2, 0.1], [0.3, -0.5, 0.1], "/nonexistent/x.png"),
        lambda: plots.show_multiple_phasePlot([0.3, 0.2], [0.3, "abc"], getFig=True),
    ]
    followers = ["SP.phaseDiagramPlot", "plots.multiple_uverskyPlot2", "plots.multiple_phasePlot", "SP.uverskyPlot"]
    for bi, bad in enumerate(bad_calls):
        for ep in followers:
            P.close("all")
            calls += 2
            try:
                with SaveSpy(False):
                    bad()
                out.append({"key": "invalid-point-accepted", "what": "multi-sequence phase plot accepted an invalid coordinate (call %d)" % bi,
                            "case": case})
            except Exception:  # noqa
                pass
            kind, n, show, save = eps[ep]
            objs = objs3 if n == 3 else objs3[:1]
            try:
                ret = show(objs, cfg, True)      # NOTE: nothing was closed after the rejected call
            except Exception as e:  # noqa
                out.append({"key": "plot-raises:" + ep, "what": "%s after a rejected multi-sequence call raised %r" % (ep, e), "case": case})
                continue
            fig = fig_of(ret) or P.gcf()
            judge_fig(inspect(fig), kind, objs, cfg, ep, "show after rejected call %d" % bi, dict(case, follower=ep, bad=bi), out)
    P.close("all")
    return out, calls


def check_homopolymers(case):
    """Every homopolymer X^n: both single-sequence diagrams must draw it at its true coordinates (no exception)."""
    out = []
    calls = 0
    P = plt()
    cfg = {"label": "", "title": None, "legend": False, "xLim": 1, "yLim": 1, "font": 10}
    eps = entry_points()
    for n in range(case["lo"], case["hi"] + 1):
        seq = case["res"] * n
        o = [SP(seq)]
        for ep in ("SP.uverskyPlot", "SP.phaseDiagramPlot"):
            kind, _, show, save = eps[ep]
            P.close("all")
            calls += 1
            try:
                ret = show(o, cfg, True)
            except Exception as e:  # noqa
                out.append({"key": "plot-raises:" + ep, "what": "%s on %s^%d raised %r" % (ep, case["res"], n, e), "case": dict(case, n=n)})
                continue
            d = inspect(fig_of(ret) or P.gcf())
            exp = expected_markers(kind, o)
            if d is None or len(d["markers"]) != 1 or abs(d["markers"][0][0] - exp[0][0]) > TOL or abs(d["markers"][0][1] - exp[0][1]) > TOL:
                out.append({"key": "marker-position:" + kind, "what": "%s on %s^%d: markers %r, expected %r"
                            % (ep, case["res"], n, None if d is None else d["markers"], exp), "case": dict(case, n=n)})
    P.close("all")
    return out, calls


def check_argtypes(case):
    """Raw-value entry points with coordinates as str / int / numpy numbers, and numeric point labels including zero."""
    from localcider import plots
    out = []
    calls = 0
    P = plt()
    cfg = {"label": "", "title": None, "legend": True, "xLim": 1, "yLim": 1, "font": 10}

    def v(key, what):
        out.append({"key": key, "what": what, "case": case})

    def markers_of(ret):
        d = inspect(fig_of(ret) or P.gcf())
        P.close("all")
        return None if d is None else d

    convs = {"str": str, "numpy-float32": lambda x: np.float32(x), "numpy-float64": np.float64, "repr-str": lambda x: repr(float(x))}
    for (a, b) in ((0.25, 0.5), (0.0, 0.125), (0.5, 0.375)):
        for cn, cv in convs.items():
            for name, f, exp in (("plots.show_single_phasePlot", lambda x, y: plots.show_single_phasePlot(x, y, getFig=True), (a, b)),
                                 ("plots.show_single_uverskyPlot", lambda x, y: plots.show_single_uverskyPlot(x, y, getFig=True), (b, a))):
                P.close("all")
                calls += 1
                try:
                    d = markers_of(f(cv(a), cv(b)))
                except Exception as e:  # noqa
                    v("plot-raises:" + name, "%s with coordinates as %s raised %r" % (name, cn, e))
                    P.close("all")
                    continue
                if d is None or len(d["markers"]) != 1 or abs(d["markers"][0][0] - exp[0]) > 1e-6 or abs(d["markers"][0][1] - exp[1]) > 1e-6:
                    v("marker-position:" + name.split("_")[-1], "%s with coordinates (%r,%r) given as %s: markers %r, expected %r"
                      % (name, a, b, cn, None if d is None else d["markers"], exp))
    # numeric labels, including zero, on the multi-sequence functions
    for family in (SEQS[:3], EXTREME):
        objs = [SP(s_) for s_ in family]
        fp = [o.get_fraction_positive() for o in objs]
        fn = [o.get_fraction_negative() for o in objs]
        hy = [o.get_uversky_hydropathy() for o in objs]
        mc = [o.get_mean_net_charge() for o in objs]
        for labels in ([0, 1, 2], [0.0, 0.5, 1.5], [2, 0, 0], ["a", 0, "c"]):
            want = [str(l) for l in labels]
            for name, f in (("plots.show_multiple_phasePlot", lambda L: plots.show_multiple_phasePlot(fp, fn, L, getFig=True)),
                            ("plots.show_multiple_phasePlot2", lambda L: plots.show_multiple_phasePlot2(objs, L, getFig=True)),
                            ("plots.show_multiple_uverskyPlot", lambda L: plots.show_multiple_uverskyPlot(hy, mc, L, getFig=True)),
                            ("plots.show_multiple_uverskyPlot2", lambda L: plots.show_multiple_uverskyPlot2(objs, L, getFig=True))):
                P.close("all")
                calls += 1
                try:
                    d = markers_of(f(list(labels)))
                except Exception as e:  # noqa
                    v("plot-raises:" + name, "%s with labels %r raised %r" % (name, labels, e))
                    P.close("all")
                    continue
                got = None if d is None else [t for t, _ in d["texts"]]
                if got != want:
                    v("point-labels:" + name, "%s with labels %r drew %r, expected %r" % (name, labels, got, want))
    P.close("all")
    return out, calls


def check_polygons(case):
    """Polygons read once from a real figure; every composition of total lo..hi classified by the real classifier."""
    out = []
    P = plt()
    P.close("all")
    lim = case.get("limits")
    if lim:
        # a zoomed diagram: the regions are drawn in data coordinates, so every marker still lies in the polygon of its region
        ret = SP("KKEEGGSSPP").show_phaseDiagramPlot(getFig=True, xLim=lim[0], yLim=lim[1])
    else:
        ret = SP("KKEEGGSSPP").show_phaseDiagramPlot(getFig=True)
    fig = fig_of(ret) or P.gcf()
    d = inspect(fig)
    P.close("all")
    if d is None or len(d["polygons"]) != 5:
        return [{"key": "region-polygons", "what": "could not read five polygons", "case": case}], 1
    polys = [[(frac(x), frac(y)) for x, y in pg] for pg in d["polygons"]]
    calls = 1
    for N in range(case["lo"], case["hi"] + 1):
        for p in range(N + 1):
            for n in range(N - p + 1):
                seq = "K" * p + "E" * n + "G" * (N - p - n)
                calls += 1
                try:
                    region = SP(seq).get_phasePlotRegion()
                except Exception:  # noqa
                    continue     # totality is C08's job
                if not (isinstance(region, int) and 1 <= region <= 5) or not inside_closed(polys[region - 1], (F(p, N), F(n, N))):
                    out.append({"key": "marker-outside-its-region", "what": "(n+,n-,N)=(%d,%d,%d): classified region %r but (%s,%s) lies "
                                "outside drawn polygon %r" % (p, n, N, region, F(p, N), F(n, N), d["polygons"][region - 1] if region in range(1, 6) else None),
                                "case": dict(case, comp=[p, n, N - p - n])})
                    if len(out) > 20:
                        return out, calls
    return out, calls


def check_save_then_plot(case):
    """A save in some format followed, WITHOUT the caller closing anything, by further plots in the same process: each later
    figure shows exactly its own sequences (markers / bars), whatever format the earlier save used."""
    ep, fmt = case["ep"], case["fmt"]
    eps = entry_points()
    kind, n, show, save = eps[ep]
    out = []
    calls = 0
    P = plt()
    cfg = {"label": "", "title": None, "legend": True, "xLim": 1, "yLim": 1, "font": 10}
    if n > 1:
        cfg = dict(cfg, label=None)

    def v(key, what):
        out.append({"key": key, "what": what, "case": case})
    P.close("all")
    first = [SP(SEQS[1])] if n == 1 else [SP(s_) for s_ in SEQS]
    with SaveSpy(False) as spy:
        try:
            save(first, cfg, "/nonexistent/vmc_c19_first." + fmt, fmt)
            calls += 1
        except Exception as e:  # noqa
            v("plot-raises:" + ep, "%s save(%s) raised %r" % (ep, fmt, e))
    # ... and now, with nothing closed by the caller, other plots
    for ep2 in ("SP.phaseDiagramPlot", "plots.multiple_uverskyPlot2", ep):
        kind2, n2, show2, save2 = eps[ep2]
        objs2 = [SP(TIES[0])] if n2 == 1 else [SP(s_) for s_ in EXTREME]
        cfg2 = dict(cfg, label=None if n2 > 1 else "")
        calls += 1
        try:
            fig = fig_of(show2(objs2, cfg2, True))
        except Exception as e:  # noqa
            v("plot-raises:" + ep2, "%s after %s save(%s) raised %r" % (ep2, ep, fmt, e))
            continue
        judge_fig(inspect(fig if fig is not None else P.gcf()), kind2, objs2, cfg2, ep2, "after %s save(%s), nothing closed by the caller" % (ep, fmt), case, out)
        # a figure handed to the caller (getFig=True) is the caller's to close - and only that one; then the same save again
        P.close(fig if fig is not None else P.gcf())
        with SaveSpy(False):
            try:
                save(first, cfg, "/nonexistent/vmc_c19_again." + fmt, fmt)
                calls += 1
            except Exception as e:  # noqa
                v("plot-raises:" + ep, "%s save(%s) raised %r" % (ep, fmt, e))
    # the same for a linear profile saved in that format, then a different sequence shown
    try:
        o1, o2 = SP("KEGKEGKEGKEGKEG"), SP("GKRDESTYPAG")
        with SaveSpy(False):
            o1.save_linearNCPR("/nonexistent/vmc_c19_lin." + fmt, 3, saveFormat=fmt)
        fig = fig_of(o2.show_linearNCPR(3, getFig=True))
        calls += 2
        d = inspect(fig if fig is not None else P.gcf())
        if d is None or len(d["bars"]) != 11:
            v("linear-bars:after-save", "show_linearNCPR of an 11-residue sequence after save_linearNCPR(%s) of a 15-residue one draws %s bars"
              % (fmt, None if d is None else len(d["bars"])))
    except Exception as e:  # noqa
        v("plot-raises:linear", "linear save(%s)-then-show raised %r" % (fmt, e))
    P.close("all")
    return out, calls


def check_case(case):
    if case["kind"] == "counts":
        return check_counts(case)
    if case["kind"] == "after-rejected":
        return check_after_rejected(case)
    if case["kind"] == "argtypes":
        return check_argtypes(case)
    if case["kind"] == "homopolymers":
        return check_homopolymers(case)
    if case["kind"] == "polygons":
        return check_polygons(case)
    if case["kind"] == "region":
        v, _ = check_region(case)
        return v, 1
    if case["kind"] == "config":
        return check_config(case)
    if case["kind"] == "save-then-plot":
        return check_save_then_plot(case)
    return check_linear(case)


def shard(cases):
    acc = core.Acc()
    for case in cases:
        v, calls = check_case(case)
        acc.states += 1
        acc.traces += 1
        acc.transitions += calls
        acc.evaluations += calls
        if case["kind"] == "region":
            p, n, z = case["comp"]
            acc.out(("region", R.region(p, n, p + n + z)))
            if p and n:
                acc.nontrivial += 1
        elif case["kind"] == "polygons":
            acc.nontrivial += 1
            acc.out(("polygons", case["lo"]))
        else:
            acc.nontrivial += 1
            acc.out((case["kind"], case.get("ep"), case.get("seq")))
        for x in v:
            acc.viol(x["key"], x["what"], x["case"])
        if case["kind"] == "config" and case["cfg"]["label"] == "x" and case["cfg"]["xLim"] == 0.5:
            acc.sample({"entry_point": case["ep"], "config": case["cfg"], "figures": calls}, cap=1)
    return acc


def run(tier, seed, t0):
    NK = 26 if tier == "quick" else 40
    NP = 80 if tier == "quick" else 150
    cases = [{"kind": "region", "comp": c} for c in R.compositions(NK)]
    step = 4 if tier == "quick" else 3
    cases += [{"kind": "polygons", "lo": lo, "hi": min(NP, lo + step - 1)} for lo in range(NK + 1, NP + 1, step)]
    for ep in ("plots.multiple_phasePlot", "plots.multiple_phasePlot2", "plots.multiple_uverskyPlot", "plots.multiple_uverskyPlot2"):
        cases.append({"kind": "counts", "ep": ep, "counts": [3, 5, 2, 1, 4]})
    cases.append({"kind": "after-rejected"})
    cases.append({"kind": "argtypes"})
    HN = 40 if tier == "quick" else 120
    for res in "ACDEFGHIKLMNPQRSTVWY":
        for lo in range(1, HN + 1, 20):
            cases.append({"kind": "homopolymers", "res": res, "lo": lo, "hi": min(HN, lo + 19)})
    cfgs = []
    for label, title, legend, xl, yl, font in itertools.product(("", "x", LONGLABEL), (None, "My title"), (True, False),
                                                                 (1, 0.5), (1, 0.5), (10, 6)):
        cfgs.append({"label": label, "title": title, "legend": legend, "xLim": xl, "yLim": yl, "font": font})
    eps = list(entry_points())
    ep_sel = eps if tier == "thorough" else ["SP.phaseDiagramPlot", "plots.multiple_uverskyPlot2", "SP.uverskyPlot", "plots.single_uverskyPlot",
                                             "plots.multiple_phasePlot"]
    for ep in ep_sel:
        for c in cfgs:
            cases.append({"kind": "config", "ep": ep, "cfg": c})
    # every entry point at least with the default configuration and each save format (written to a real temp file)
    dflt = {"label": "", "title": None, "legend": True, "xLim": 1, "yLim": 1, "font": 10}
    for ep in eps:
        for fmt in ("png", "pdf", "svg"):
            cases.append({"kind": "config", "ep": ep, "cfg": dict(dflt, label=None if "multiple" in ep else ""), "fmt": fmt,
                          "write": fmt != "png" or tier == "thorough"})
    # axis limits other than 1 and 0.5 (second decimals, values above 1, different on the two axes) on every entry point, and the
    # region polygons of zoomed diagrams
    for ep in eps:
        for xl, yl in ((0.9, 0.8), (0.68, 0.47), (0.99, 0.55), (1.08, 1.2), (0.75, 0.96)):
            cases.append({"kind": "config", "ep": ep, "cfg": dict(dflt, label=None if "multiple" in ep else "", xLim=xl, yLim=yl)})
    for lim in ((0.9, 0.8), (0.8, 0.9), (0.7, 0.95), (0.95, 0.7), (1.2, 1.1)):
        cases.append({"kind": "polygons", "lo": 1, "hi": 16 if tier == "quick" else 30, "limits": list(lim)})
    # labelled multi-sequence plots whose markers share an x-coordinate
    for ep in eps:
        if "multiple" in ep:
            cases.append({"kind": "config", "ep": ep, "cfg": dict(dflt, label="pt"), "family": "ties"})
    # a save in each format followed by further plots with nothing closed in between
    for ep in eps:
        for fmt in ("png", "pdf", "svg", "ps"):
            cases.append({"kind": "save-then-plot", "ep": ep, "fmt": fmt})
    # saves to a bare file name in the working directory (on another file system than the temp directory where one exists),
    # with and without an older file of that name in place
    for ep in eps:
        for fmt, existing in (("png", False), ("pdf", True)):
            cases.append({"kind": "config", "ep": ep, "cfg": dict(dflt, label=None if "multiple" in ep else ""), "fmt": fmt, "write": True,
                          "bare": True, "existing": existing})
    lin_seqs = ["KEGKE", "KKEEGGSSPP", "GKRDESTYPAG", ("KEGGSR" * 40)[:221]] + (["KEKEKEGGGGPPPPKKKKEEEE", ("RGGSSE" * 60)[:300]] if tier == "thorough" else [])
    for s in lin_seqs:
        for w in ((1, 2, 5) if tier == "quick" else range(1, min(len(s), 8) + 1)):
            if w <= len(s):
                cases.append({"kind": "linear", "seq": s, "w": w})
    # wide windows over charge-rich, slightly unbalanced stretches: profile values far below a thousandth of the axis range must
    # still be drawn with their true (tiny) heights
    for s in (("KE" * 60 + "K") * 2, ("KKEEKEKE" * 30)[:221] + "K"):
        for w in ((33, 75, len(s) - 1) if tier == "quick" else (32, 33, 40, 50, 75, 100, len(s) - 1, len(s))):
            cases.append({"kind": "linear", "seq": s, "w": w})
    nsh = 16 * 6
    acc = core.pmap(shard, [cases[i::nsh] for i in range(nsh)])
    return core.finish(
        PROP, tier, seed, acc, t0,
        rule="(1) region agreement: every composition (n+,n-,n0) of total 1..%d through show_phaseDiagramPlot(getFig=True) on the Agg "
             "backend: one marker at (f+,f-), five polygons read back from the figure, vertices taken as the decimals they denote, the "
             "exact rational marker must lie (closed) inside the polygon whose index is get_phasePlotRegion(); beyond that, up to total %d, the polygons are read once from a "
             "real figure and every composition is classified by the real get_phasePlotRegion() and tested for containment; the "
             "multi-sequence entry points are called with 3,5,2,1,4 unlabelled sequences in turn in one process; a rejected multi-sequence "
             "call (invalid coordinate in the middle) is followed, without closing anything, by four other plots; every homopolymer "
             "X^n (20 residues, n up to %d) is drawn on both single-sequence diagrams. (2) entry points x "
             "configurations: %d entry point families (show with getFig True/False + save; object methods and the plots module, "
             "single / multiple / multiple2) x the full product label{'', 'x', long} x title{default,custom} x legend x xLim{1,.5} x "
             "yLim{1,.5} x font{10,6} (96 configurations) on three sequences: markers at the true coordinates, requested title, axis "
             "labels, limits, point labels and font, a figure returned when getFig; every entry point x {png,pdf,svg} written to a "
             "real temp file (absolute path; also a bare name in a working directory on another file system where one exists, with and without an older file in place); five further pairs of axis limits (second decimals, above 1, unequal) on every entry point and the region polygons of five zoomed diagrams x every composition to 16/30; labelled multi-sequence plots of sequences whose markers share an x-coordinate; every entry point's save in {png,pdf,svg,ps} followed, with nothing closed by the caller, by three further plots (each returned figure closed by the caller, then the save repeated) and a linear profile of another sequence (each figure must show exactly its own markers / bars). (3) linear plots: show/save_linear{NCPR,FCR,Sigma,Hydropathy} x windows (1, 2, 5 and 33, 75, N-1 on charge-rich 222/242-residue sequences): N bars centred on 1..N with "
             "the heights of get_linear_*. save_* figures are inspected at the moment savefig is called. non-trivial = all but "
             "single-charge-type region cases" % (NK, NP, HN, len(ep_sel)),
        bounds={"region_K": NK, "entry_points": len(ep_sel), "configurations": len(cfgs), "linear_sequences": len(lin_seqs)},
        assumptions=["dont-care: byte format of the written file, legend contents, label offsets",
                     "getFig returns the matplotlib.pyplot module; the current figure is read from it"],
        min_outcomes=5)


def replay(case):
    return check_case(case)[0]
