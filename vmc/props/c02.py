"""C02 - get_delta() equals the Das-Pappu blob-averaged charge-asymmetry variance (exact rational reference)."""
from .. import core, spaces
from ..refmodel import charge as R

PROP = "C02"
TOL = 1e-12


def api_delta(seq):
    from localcider.sequenceParameters import SequenceParameters
    with core.istate(seq):
        return core.sp(seq).get_delta()


def check_case(case, acc=None):
    seq = case["seq"]
    pat = R.pattern_of(seq)
    ref = R.delta(pat)
    out = []
    try:
        got = api_delta(seq)
    except Exception as e:  # noqa
        out.append({"key": "exception", "what": "get_delta() raised %r for %s" % (e, core.short(seq)), "case": case})
        return out, ref, None
    if not (abs(float(got) - float(ref)) <= TOL):
        out.append({"key": "delta-mismatch",
                    "what": "get_delta(%s)=%r but exact definition gives %r (=%s)" % (core.short(seq), got, float(ref), core.short(str(ref))),
                    "case": dict(case, expected=float(ref), observed=float(got))})
    return out, ref, got


def _consume(acc, seq, spelling, fam=None):
    case = {"kind": "delta", "seq": seq, "spelling": spelling}
    if fam is not None:
        case.update(family=fam[0], index=fam[1])
    v, ref, got = check_case(case)
    acc.states += 1
    acc.transitions += 1
    acc.traces += 1
    acc.evaluations += 1
    if ref > 0:
        acc.nontrivial += 1
    acc.out(round(float(ref), 12))
    for x in v:
        acc.viol(x["key"], x["what"], x["case"])
    if ref > 0 and len(seq) >= 6:
        acc.sample({"seq": seq, "delta_api": got, "delta_exact": str(ref)}, cap=2)


def shard(s):
    kind = s[0]
    acc = core.Acc()
    if kind == "P":
        _, L, pre = s
        for pat in spaces.shard_words(R.SYM, L, pre):
            _consume(acc, R.spell_base(pat), "base")
    elif kind == "S":
        _, L, pre = s
        for pat in spaces.shard_words(R.SYM, L, pre):
            for k in range(16):
                _consume(acc, R.spell_covering(pat, k), "cover%d" % k)
            _consume(acc, R.spell_rotating(pat), "rot")
    elif kind == "R":
        _, N, r = s
        for pat in spaces.run_length_patterns(N, r):
            _consume(acc, R.spell_rotating(pat, N), "rot")
    elif kind == "SCAN":
        from ..engines.history import fresh_world
        fresh_world()
        Ns = list(range(1, s[1] + 1))
        for N in (Ns if s[2] == "up" else reversed(Ns)):
            for pat in ("+" * N, ("+-" * N)[:N], "+" + "0" * (N - 1), ("++0--0" * N)[:N], "-" * (N // 2) + "0" + "+" * (N - N // 2 - 1)):
                if len(pat) == N:
                    _consume(acc, R.spell_rotating(pat, N), "rot")
    elif kind == "ENDS":
        # very long patterns that share their first and last residues but differ inside (keys built from abbreviated text collide)
        N = s[1]
        for ends in ("+++", "+-0", "000"):
            for unit in ("+", "-", "0", "+-", "+0-", "++--00"):
                inner = (unit * (N // len(unit) + 1))[:N - 6]
                _consume(acc, R.spell_rotating(ends + inner + ends[::-1], N), "rot")
    elif kind == "PAD":
        from ..engines.history import fresh_world
        fresh_world()
        for i, pat in enumerate(spaces.padded_cores()):
            _consume(acc, R.spell_rotating(pat, len(pat) % 3), "rot", ("PAD", i))
    elif kind == "XXL":
        # several thousand residues (chunked / slab-wise evaluations have their seams there): irregular, periodic, block patterns
        N, k = s[1], s[2]
        d = spaces.de_bruijn(R.SYM, 6)
        pat = [((d + d[::-1]) * (N // len(d) + 1))[:N], ("++-0-" * N)[:N], "+" * (N // 3) + "0" * (N // 3) + "-" * (N - 2 * (N // 3)),
               ("0" * 7 + "+-") * (N // 9 + 1)][k][:N]
        _consume(acc, R.spell_rotating(pat, k), "rot")
    elif kind == "SPARSE":
        # sparsely charged chains (below 5 % charged residues) of every length 20..s[1]: two to four charges 1..7 residues apart
        # (all sign combinations) somewhere in a neutral linker - the regime in which a sequence is mostly uncharged blobs
        import itertools as _it
        for N in range(20, s[1] + 1, 1 if s[1] <= 130 else 7):
            for gi, gaps in enumerate(((1,), (2,), (3,), (4,), (5,), (6,), (7,), (1, 1), (2, 3), (5, 1), (3, 3, 3))):
                for signs in _it.product("+-", repeat=len(gaps) + 1):
                    off = (N * (gi + 2)) // 14
                    a = ["0"] * N
                    p = off
                    ok = True
                    for k, sg in enumerate(signs):
                        if p >= N:
                            ok = False
                            break
                        a[p] = sg
                        if k < len(gaps):
                            p += gaps[k]
                    if ok:
                        _consume(acc, R.spell_rotating("".join(a), N), "rot")
    elif kind == "DB":
        for pat in spaces.window_complete_chunks(R.SYM, 6, s[1]):
            _consume(acc, R.spell_rotating(pat, len(pat)), "rot")
    elif kind == "LONG":
        for pat in spaces.long_family(s[1]):
            _consume(acc, R.spell_rotating(pat, s[1]), "rot")
    return acc


def run(tier, seed, t0):
    if tier == "quick":
        L, L2, RN = 10, 6, 20
    else:
        L, L2, RN = 13, 8, 40
    shards = [("P",) + s for s in spaces.word_shards(R.SYM, 1, L, 4)]
    shards += [("S",) + s for s in spaces.word_shards(R.SYM, 1, L2, 3)]
    shards += [("R", N, 3) for N in range(RN, 4, -1)]
    LN = (64, 128, 200, 256) if tier == "quick" else (64, 127, 128, 129, 200, 256, 300, 400, 512, 700, 1000)
    shards += [("LONG", N) for N in LN]
    shards += [("PAD",)]
    shards += [("SPARSE", 120 if tier == "quick" else 400)]
    shards = [("XXL", N, k) for N in ((4101, 4500, 8200) if tier == "quick" else (4096, 4101, 4102, 4500, 8197, 8200, 12345, 16390)) for k in range(4)] + shards
    shards += [("DB", (L_,)) for L_ in ((23, 47, 97) if tier == "quick" else (17, 23, 31, 47, 61, 97, 150, 301))]
    shards += [("ENDS", N) for N in ((1100,) if tier == "quick" else (1001, 1100, 1500))]
    SC = 300 if tier == "quick" else 600
    shards = [("SCAN", SC, "up"), ("SCAN", SC, "down")] + shards
    acc = core.pmap(shard, shards)
    return core.finish(
        PROP, tier, seed, acc, t0,
        rule="every charge pattern over {+,-,0} of length 1..%d (K/E/G spelling), every pattern of length 1..%d in 16 "
             "covering spellings + 1 rotating spelling (all 20 residues occur), every pattern of length 5..%d with <=3 "
             "runs, and a structured family of long patterns (homopolymers, 2/3-block, periodic) at lengths %s, four patterns at 4101/4500/8200 residues (thorough: to 16390), and EVERY length 1..%d in strictly ascending and descending order in a freshly imported package (5 patterns per length), sparsely charged linkers of every length 20..120 (thorough 400) with two to four charges 1..7 residues apart in every sign combination, and shared-core families (6 irregular cores x every combination of 0/1/3/8 neutral residues on either side, in a fresh package); each is one real SequenceParameters(seq).get_delta() call compared with exact Fraction evaluation "
             "of the definition; non-trivial = reference delta > 0; outcomes = distinct reference delta values" % (L, L2, RN, list(LN), SC),
        bounds={"L_base": L, "L_spellings": L2, "runlength_N": RN, "runs": 3, "tolerance_abs": TOL},
        assumptions=["reference model vmc/refmodel/charge.py states the property's definition; residue charge classes "
                     "from vmc/refmodel/tables.py (K,R +; D,E -)"])


def replay(case):
    if case.get("family") == "PAD":      # the whole family up to this member, in order, in the (fresh) world
        for pat in spaces.padded_cores()[:case["index"]]:
            check_case({"kind": "delta", "seq": R.spell_rotating(pat, len(pat) % 3), "spelling": "rot"})
    return check_case(case)[0]
