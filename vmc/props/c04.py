"""C04 - composition parameters equal their published per-residue definitions; identities; permutation invariance."""
import itertools

from .. import core, spaces
from ..refmodel import tables as T
from ..refmodel.composition import ref_vector, api_vector

PROP = "C04"
NCALLS = 26
PPII_SPELLINGS = (("hilser", "Hilser"), ("hilser", "HILSER"), ("creamer", "Creamer"), ("creamer", "CREAMER"),
                  ("kallenbach", "Kallenbach"), ("kallenbach", "kAlLeNbAcH"))


def light(o):
    return {"countPos": o.get_countPos(), "countNeg": o.get_countNeg(), "countNeut": o.get_countNeut(),
            "fraction_positive": o.get_fraction_positive(), "fraction_negative": o.get_fraction_negative(),
            "FCR": o.get_FCR(), "NCPR": o.get_NCPR(), "mean_net_charge": o.get_mean_net_charge(),
            "fraction_expanding": o.get_fraction_expanding(), "fraction_disorder_promoting": o.get_fraction_disorder_promoting(),
            "mean_hydropathy": o.get_mean_hydropathy(), "WW_hydropathy": o.get_WW_hydropathy(),
            "PPII_creamer": o.get_PPII_propensity("creamer"), "molecular_weight": o.get_molecular_weight()}


def contexts(seq):
    """Other API calls made on the same object before the composition getters are asked again (accepted calls incl. degenerate ones)."""
    n = len(seq)
    x, y = seq[0], seq[-1]
    sty = [i + 1 for i, a in enumerate(seq) if a in "STY"][:3]
    absent = [a for a in "WCMFH" if a not in seq][:2] or ["W", "C"]
    return [
        ("get_kappa", lambda o: o.get_kappa()), ("get_Omega", lambda o: o.get_Omega()),
        ("get_deltaMax(True)", lambda o: o.get_deltaMax(True)), ("get_SCD", lambda o: o.get_SCD()),
        ("get_kappa_X(absent,absent)", lambda o: o.get_kappa_X(absent[:1], absent[1:] or ["C"])),
        ("get_kappa_X(absent)", lambda o: o.get_kappa_X(absent[:1])),
        ("get_kappa_X(first,last)", lambda o: o.get_kappa_X([x], [y])),
        ("get_kappa_X(first)", lambda o: o.get_kappa_X([x])),
        ("get_kappa_X(ED,KR)", lambda o: o.get_kappa_X(["E", "D"], ["K", "R"])),
        ("get_isoelectric_point", lambda o: o.get_isoelectric_point()),
        ("get_NCPR(pH=2)/get_FCR(pH=12)", lambda o: (o.get_NCPR(2.0), o.get_FCR(pH=12), o.get_fraction_expanding(7.0))),
        ("phosphosites+kappa-after+distribution", lambda o: (o.set_phosphosites(sty), o.get_kappa_after_phosphorylation(),
                                                             o.get_full_phosphostatus_kappa_distribution(), o.get_phosphosequence())),
        ("linear profiles", lambda o: (o.get_linear_NCPR(min(n, 5)), o.get_linear_FCR(n), o.get_linear_sigma(min(n, 5)),
                                       o.get_linear_hydropathy(min(n, 5)), o.get_linear_sequence_composition(min(n, 5)))),
        ("complexity", lambda o: (o.get_reduced_alphabet_sequence(4), o.get_linear_complexity(blobLen=min(n, 4)),
                                  o.get_linear_complexity("LC", 2, blobLen=min(n, 4), wordSize=min(n, 2)))),
        ("palette+html", lambda o: (o.set_HTMLColorResiduePalette({a: "red" for a in T.AA}), o.get_HTMLColorString())),
        ("region+fractions", lambda o: (o.get_phasePlotRegion(), o.get_amino_acid_fractions(), o.get_sequence(), str(o), len(o))),
    ]


def check_after_context(case):
    """Composition of a live object is a function of its sequence: unchanged by whatever else was asked of the object before."""
    from localcider.sequenceParameters import SequenceParameters as SP
    from ..engines.history import scramble
    seq = case["multiset"]
    out = []
    r = ref_vector(seq)
    o = SP(seq)
    n = 0
    for name, f in contexts(seq):
        try:
            with core.quiet():
                scramble(f(o))
        except Exception:  # noqa  (a context call may be rejected; what matters is the object afterwards)
            pass
        try:
            a = light(o)
        except Exception as e:  # noqa
            out.append({"key": "after-context:exception", "what": "%s: composition getter raised %r after %s" % (seq, e, name),
                        "case": dict(case, seq=seq, context=name)})
            break
        n += 1
        bad = [k for k in a if not (a[k] == r[k] if k.startswith("count") else core.close(a[k], float(r[k]), 1e-9, 1e-12))]
        if bad:
            out.append({"key": "after-context:" + bad[0],
                        "what": "%s: after %s on the same object, %s = %r but the per-residue definition gives %r"
                                % (seq, name, bad[0], a[bad[0]], float(r[bad[0]])), "case": dict(case, seq=seq, context=name)})
            break
    # derived objects (the values are permutation-invariant, so whatever arrangement the random shuffle produced they must be
    # those of `seq`): SequencePermutants(seq).get_permutant(), get_shuffled_sequence(), and a SeqObj-sharing second wrapper
    if not out:
        # the shuffles' random draws are answered from a fixed pseudo-random tape (deterministic, replayable)
        from ..engines import choice as C
        import localcider.backend.sequence as S_
        old_rng = S_.rng
        C.install(S_)
        C.ScriptedRandom.tape = C.Tape((), seed=4104, horizon=10 ** 7)
        try:
            from localcider.sequencePermutants import SequencePermutants
            derived = [("SequencePermutants.get_permutant", SequencePermutants(seq).get_permutant()),
                       ("get_shuffled_sequence", SP(seq).get_shuffled_sequence()),
                       ("get_shuffled_sequence(frozen first half)", o.get_shuffled_sequence(set(range(len(seq) // 2)))),
                       ("SequenceParameters(SeqObj=)", SP(SeqObj=SP(seq).SeqObj)),
                       ("copy.deepcopy", __import__("copy").deepcopy(o)), ("copy.copy", __import__("copy").copy(o)),
                       ("pickle round trip", __import__("pickle").loads(__import__("pickle").dumps(SP(seq), protocol=len(seq) % 6))),
                       ("deepcopy of the backend object", SP(SeqObj=__import__("copy").deepcopy(SP(seq).SeqObj)))]
        except Exception as e:  # noqa
            out.append({"key": "after-context:exception", "what": "%s: deriving a permutant raised %r" % (seq, e), "case": dict(case, seq=seq)})
            derived = []
        finally:
            C.ScriptedRandom.tape = None
            S_.rng = old_rng
        for name, dobj in derived:
            n += 1
            try:
                a = light(dobj)
                a["length"] = dobj.get_length()
                a["len"] = len(dobj)
                a["sorted_sequence"] = "".join(sorted(dobj.get_sequence()))
            except Exception as e:  # noqa
                out.append({"key": "derived-object:exception", "what": "%s: getters of the object from %s raised %r" % (seq, name, e),
                            "case": dict(case, seq=seq, route=name)})
                continue
            exp = dict(r, length=len(seq), len=len(seq), sorted_sequence="".join(sorted(seq)))
            bad = [k for k in a if not (a[k] == exp[k] if (k.startswith("count") or k in ("length", "len", "sorted_sequence"))
                                        else core.close(a[k], float(exp[k]), 1e-9, 1e-12))]
            if bad:
                out.append({"key": "derived-object:" + bad[0], "what": "%s: the object from %s reports %s = %r, the per-residue definition over the "
                            "same residues gives %r" % (seq, name, bad[0], a[bad[0]], exp[bad[0]] if isinstance(exp[bad[0]], (int, str)) else float(exp[bad[0]])),
                            "case": dict(case, seq=seq, route=name)})
    return out, n


def check_seq(seq, case):
    from localcider.sequenceParameters import SequenceParameters as SP
    out = []

    def v(key, what, **kw):
        out.append({"key": key, "what": what, "case": dict(case, seq=seq, **kw)})
    try:
        with core.istate(seq):
            a = api_vector(SP(seq))
    except Exception as e:  # noqa
        v("exception", "composition getter raised %r for %s" % (e, seq))
        return out, None
    r = ref_vector(seq)
    if "frac_keys" in a:
        v("aa-fraction-keys", "%s: get_amino_acid_fractions keys are %r" % (seq, a["frac_keys"]))
    for k, ref in r.items():
        got = a.get(k)
        if k.startswith("count"):
            ok = (got == ref) and not isinstance(got, bool)
        else:
            ok = core.close(got, float(ref), 1e-9, 1e-12)
        if not ok:
            v("param:" + (k if not k.startswith("frac_") else "aa_fraction"),
              "%s: %s = %r but per-residue definition gives %s (=%r)" % (seq, k, got, ref, float(ref)),
              param=k, observed=got, expected=float(ref))
    try:
        o2 = SP(seq)
        for canon, sp in PPII_SPELLINGS:
            for got in (o2.get_PPII_propensity(sp), o2.get_PPII_propensity(mode=sp)):
                if not core.close(got, float(r["PPII_" + canon]), 1e-9, 1e-12):
                    v("param:PPII-mode-spelling", "%s: get_PPII_propensity(%r) = %r but the %s scale (documented as case-insensitive) "
                      "gives %r" % (seq, sp, got, canon, float(r["PPII_" + canon])), param="PPII_" + sp)
        if not core.close(o2.get_PPII_propensity(), float(r["PPII_hilser"]), 1e-9, 1e-12):
            v("param:PPII-default-mode", "%s: get_PPII_propensity() is not the Hilser value" % seq)
    except Exception as e:  # noqa
        v("param:PPII-mode-spelling", "%s: get_PPII_propensity with a documented spelling raised %r" % (seq, e))
    N = len(seq)
    try:
        ident = [
            ("FCR=f++f-", core.close(a["FCR"], a["fraction_positive"] + a["fraction_negative"], 1e-12, 1e-15)),
            ("NCPR=f+-f-", core.close(a["NCPR"], a["fraction_positive"] - a["fraction_negative"], 1e-12, 1e-15)),
            ("|NCPR|<=FCR<=1", abs(a["NCPR"]) <= a["FCR"] + 1e-15 and a["FCR"] <= 1 + 1e-15),
            ("counts-sum-N", a["countPos"] + a["countNeg"] + a["countNeut"] == N),
            ("fractions-sum-1", core.close(sum(a["frac_" + x] for x in T.AA), 1.0, 1e-12, 1e-12)),
        ]
        for name, ok in ident:
            if not ok:
                v("identity:" + name, "%s: identity %s violated: %r" % (seq, name, {k: a[k] for k in list(a)[:9]}))
    except TypeError as e:
        v("identity:type", "%s: non-numeric value in identities (%r)" % (seq, e))
    return out, a


def check_case(case):
    """All distinct permutations of one multiset: per-permutation agreement + permutation invariance."""
    ms = case["multiset"]
    out = []
    vecs = []
    perms = sorted(set("".join(p) for p in itertools.permutations(ms))) if case.get("perms", True) else [ms]
    for seq in perms:
        v, a = check_seq(seq, case)
        out += v
        if a is not None:
            vecs.append((seq, a))
    if len(vecs) > 1:
        s0, a0 = vecs[0]
        for s1, a1 in vecs[1:]:
            for k in a0:
                x, y = a0[k], a1[k]
                if isinstance(x, (int, float)) and isinstance(y, (int, float)):
                    if not core.close(x, y, 1e-12, 1e-13):
                        out.append({"key": "permutation-variant:" + k.split("_")[0],
                                    "what": "%s differs between permutations %s (%r) and %s (%r)" % (k, s0, x, s1, y),
                                    "case": dict(case, seq=s1)})
    return out, len(perms), vecs[0][1] if vecs else None


def shard(cases):
    acc = core.Acc()
    for case in cases:
        if case["kind"] == "context":
            v, n = check_after_context(case)
            acc.states += n
            acc.transitions += n * 15
            acc.traces += 1
            acc.evaluations += n
            acc.nontrivial += 1
            acc.bump("context_checks", n)
            for x in v:
                acc.viol(x["key"], x["what"], x["case"])
            continue
        v, nperm, a = check_case(case)
        acc.states += nperm
        acc.traces += nperm
        acc.transitions += nperm * NCALLS
        acc.evaluations += nperm
        ms = case["multiset"]
        if len(set(ms)) > 1:
            acc.nontrivial += 1
        acc.bump("residues_seen", 0)
        acc.extra.setdefault("residues", set()).update(ms)
        for x in v:
            acc.viol(x["key"], x["what"], x["case"])
        if a is not None:
            acc.out((round(a["mean_hydropathy"], 9), round(a["molecular_weight"], 6)))
            if len(ms) == 3 and len(set(ms)) == 3:
                acc.sample({"seq": ms, "api": {k: a[k] for k in ("FCR", "NCPR", "mean_hydropathy", "WW_hydropathy",
                                                                   "PPII_hilser", "molecular_weight")}}, cap=1)
    return acc


def run(tier, seed, t0):
    cases = []
    Lw = 3 if tier == "quick" else 4
    for L in range(1, Lw + 1):
        for t in itertools.combinations_with_replacement(T.AA, L):
            cases.append({"kind": "multiset", "multiset": "".join(t)})
    # homopolymers and two-residue blocks X^a Y^b, a+b <= 12 (no permutations: these are long)
    for x in T.AA:
        for a in range(1, 13):
            cases.append({"kind": "block", "multiset": x * a, "perms": False})
        for y in T.AA:
            if x == y:
                continue
            for a in range(1, 12):
                for b in range(1, 13 - a):
                    if a + b >= 4:
                        cases.append({"kind": "block", "multiset": x * a + y * b, "perms": False})
    # long homopolymers and two-residue blocks (counters and accumulators beyond 127 / 255 / 1000 residues)
    for x in T.AA:
        for n in ((130, 300) if tier == "quick" else (130, 257, 300, 1000)):
            cases.append({"kind": "block", "multiset": x * n, "perms": False})
            y = T.AA[(T.AA.index(x) + 7) % 20]
            cases.append({"kind": "block", "multiset": x * (n - 3) + y * 3, "perms": False})
    # long sequences using all 20 residues (accumulators, division and dtype effects that need many terms), and one heavy outlier
    for n in ((1000, 2500) if tier == "quick" else (1000, 2500, 5000, 12000)):
        cases.append({"kind": "block", "multiset": (T.AA * (n // 20 + 1))[:n], "perms": False})
        cases.append({"kind": "block", "multiset": ("WKRDEP" * (n // 6 + 1))[:n - 1] + "G", "perms": False})
        cases.append({"kind": "block", "multiset": "G" * (n - 1) + "W", "perms": False})
    # irregular words over all 20 residues (every ordered pair of residues adjacent somewhere): many residue types at once,
    # lengths 19..61 - the fractions and the means are sums of up to twenty different terms
    for L_ in ((19, 23, 31, 47, 61) if tier == "quick" else (19, 20, 21, 23, 29, 31, 37, 41, 47, 53, 61, 97, 151)):
        for w_ in spaces.window_complete_chunks(T.AA, 2, (L_,)):
            cases.append({"kind": "block", "multiset": w_, "perms": False})
    # means that nearly cancel: X^a Y^b with Wimley-White values of opposite sign and |a*WW[X] + b*WW[Y]| = 0.01 or 0.02 at a
    # total of 101..300 residues (the mean is then a few 1e-5: tiny, not zero), for every such pair of residues
    ww = {a: int(round(float(T.WW[a]) * 100)) for a in T.AA}
    for x in T.AA:
        for y in T.AA:
            if ww[x] > 0 > ww[y]:
                found = 0
                for tot in range(101, 301):
                    for a in range(1, tot):
                        if abs(a * ww[x] + (tot - a) * ww[y]) in (1, 2):
                            cases.append({"kind": "block", "multiset": x * a + y * (tot - a), "perms": False})
                            found += 1
                            break
                    if found >= (1 if tier == "quick" else 3):
                        break
    # after-context: homopolymers X^6, all ordered pairs as X^3 Y^4, STY-rich and long ones; 16 contexts each
    for x in T.AA:
        cases.append({"kind": "context", "multiset": x * 6})
        for y in T.AA:
            if x != y:
                cases.append({"kind": "context", "multiset": x * 3 + y * 4})
    for ms in ("SKEKTGKEYEKE", "GSGSTGNQAGYG", "EDSKRKRKYE", "KRDESTYPGAVLIMFWCHNQ", "K" * 40 + "GSTY" * 10 + "E" * 40):
        cases.append({"kind": "context", "multiset": ms})
    nsh = 16 * 8
    acc = core.pmap(shard, [cases[i::nsh] for i in range(nsh)])
    res = acc.extra.pop("residues", set())
    acc.extra["distinct_residues_exercised"] = len(res)
    acc.extra.pop("residues_seen", None)
    return core.finish(
        PROP, tier, seed, acc, t0,
        rule="every multiset of 1..%d residues over the 20 amino acids with ALL its distinct permutations (= every word of "
             "that length), plus all homopolymers X^a (a<=12) and two-residue blocks X^a Y^b (4<=a+b<=12) window-complete words of 19..61 residues over all 20 residues, X^aY^b of 101..300 residues whose Wimley-White mean nearly cancels, and long ones (130..1000 residues; 1000-2500 (thorough 12000) residues over all 20 residues); per sequence 18 real "
             "getter calls (+ 13 calls with other spellings of the PPII scale name: capitalised, upper and mixed case, positional and keyword, default) (counts, fractions, FCR, NCPR, mean net charge, expanding, disorder-promoting, 20 aa fractions, "
             "KD 0-9 / Uversky / Wimley-White hydropathy, 3 PPII scales, molecular weight) compared with exact sums over pinned "
             "published tables, 5 identities, and equality across permutations; after-context pass: on one live object per X^6, X^3Y^4 (all 380 ordered pairs) and 5 longer words, 16 other API calls (kappa, Omega, kappa_X incl. groups absent from the sequence, pI, pH getters, phosphosites, linear profiles, complexity, palette) each followed by 14 composition getters that must still equal the per-residue sums, then the same getters plus length on eight derived objects (permutant, two shuffles, SeqObj-sharing wrapper, deepcopy, copy, pickle round trip, deep-copied backend object); non-trivial = multisets with >=2 distinct "
             "residues" % Lw,
        bounds={"multiset_size": Lw, "block_total": 12, "tolerance_rel": 1e-9},
        assumptions=["published per-residue values pinned in vmc/refmodel/tables.py"])


def replay(case):
    if case.get("kind") == "context":
        return check_after_context(case)[0]
    return check_case(case)[0]
