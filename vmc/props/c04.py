"""C04 - composition parameters equal their published per-residue definitions; identities; permutation invariance."""
import itertools

from .. import core
from ..refmodel import tables as T
from ..refmodel.composition import ref_vector, api_vector

PROP = "C04"
NCALLS = 18


def check_seq(seq, case):
    from localcider.sequenceParameters import SequenceParameters as SP
    out = []

    def v(key, what, **kw):
        out.append({"key": key, "what": what, "case": dict(case, seq=seq, **kw)})
    try:
        a = api_vector(SP(seq))
    except Exception as e:  # noqa
        v("exception", "composition getter raised %r for %s" % (e, seq))
        return out, None
    r = ref_vector(seq)
    if "frac_keys" in a:
        v("aa-fraction-keys", "%s: get_amino_acid_fractions keys are %r" % (seq, a["frac_keys"]))
    for k, ref in r.items():
        got = a.get(k)
        if k.startswith("count"):
            ok = (got == ref) and not isinstance(got, bool)
        else:
            ok = core.close(got, float(ref), 1e-9, 1e-12)
        if not ok:
            v("param:" + (k if not k.startswith("frac_") else "aa_fraction"),
              "%s: %s = %r but per-residue definition gives %s (=%r)" % (seq, k, got, ref, float(ref)),
              param=k, observed=got, expected=float(ref))
    N = len(seq)
    try:
        ident = [
            ("FCR=f++f-", core.close(a["FCR"], a["fraction_positive"] + a["fraction_negative"], 1e-12, 1e-15)),
            ("NCPR=f+-f-", core.close(a["NCPR"], a["fraction_positive"] - a["fraction_negative"], 1e-12, 1e-15)),
            ("|NCPR|<=FCR<=1", abs(a["NCPR"]) <= a["FCR"] + 1e-15 and a["FCR"] <= 1 + 1e-15),
            ("counts-sum-N", a["countPos"] + a["countNeg"] + a["countNeut"] == N),
            ("fractions-sum-1", core.close(sum(a["frac_" + x] for x in T.AA), 1.0, 1e-12, 1e-12)),
        ]
        for name, ok in ident:
            if not ok:
                v("identity:" + name, "%s: identity %s violated: %r" % (seq, name, {k: a[k] for k in list(a)[:9]}))
    except TypeError as e:
        v("identity:type", "%s: non-numeric value in identities (%r)" % (seq, e))
    return out, a


def check_case(case):
    """All distinct permutations of one multiset: per-permutation agreement + permutation invariance."""
    ms = case["multiset"]
    out = []
    vecs = []
    perms = sorted(set("".join(p) for p in itertools.permutations(ms))) if case.get("perms", True) else [ms]
    for seq in perms:
        v, a = check_seq(seq, case)
        out += v
        if a is not None:
            vecs.append((seq, a))
    if len(vecs) > 1:
        s0, a0 = vecs[0]
        for s1, a1 in vecs[1:]:
            for k in a0:
                x, y = a0[k], a1[k]
                if isinstance(x, (int, float)) and isinstance(y, (int, float)):
                    if not core.close(x, y, 1e-12, 1e-13):
                        out.append({"key": "permutation-variant:" + k.split("_")[0],
                                    "what": "%s differs between permutations %s (%r) and %s (%r)" % (k, s0, x, s1, y),
                                    "case": dict(case, seq=s1)})
    return out, len(perms), vecs[0][1] if vecs else None


def shard(cases):
    acc = core.Acc()
    for case in cases:
        v, nperm, a = check_case(case)
        acc.states += nperm
        acc.traces += nperm
        acc.transitions += nperm * NCALLS
        acc.evaluations += nperm
        ms = case["multiset"]
        if len(set(ms)) > 1:
            acc.nontrivial += 1
        acc.bump("residues_seen", 0)
        acc.extra.setdefault("residues", set()).update(ms)
        for x in v:
            acc.viol(x["key"], x["what"], x["case"])
        if a is not None:
            acc.out((round(a["mean_hydropathy"], 9), round(a["molecular_weight"], 6)))
            if len(ms) == 3 and len(set(ms)) == 3:
                acc.sample({"seq": ms, "api": {k: a[k] for k in ("FCR", "NCPR", "mean_hydropathy", "WW_hydropathy",
                                                                   "PPII_hilser", "molecular_weight")}}, cap=1)
    return acc


def run(tier, seed, t0):
    cases = []
    Lw = 3 if tier == "quick" else 4
    for L in range(1, Lw + 1):
        for t in itertools.combinations_with_replacement(T.AA, L):
            cases.append({"kind": "multiset", "multiset": "".join(t)})
    # homopolymers and two-residue blocks X^a Y^b, a+b <= 12 (no permutations: these are long)
    for x in T.AA:
        for a in range(1, 13):
            cases.append({"kind": "block", "multiset": x * a, "perms": False})
        for y in T.AA:
            if x == y:
                continue
            for a in range(1, 12):
                for b in range(1, 13 - a):
                    if a + b >= 4:
                        cases.append({"kind": "block", "multiset": x * a + y * b, "perms": False})
    # long homopolymers and two-residue blocks (counters and accumulators beyond 127 / 255 / 1000 residues)
    for x in T.AA:
        for n in ((130, 300) if tier == "quick" else (130, 257, 300, 1000)):
            cases.append({"kind": "block", "multiset": x * n, "perms": False})
            y = T.AA[(T.AA.index(x) + 7) % 20]
            cases.append({"kind": "block", "multiset": x * (n - 3) + y * 3, "perms": False})
    nsh = 16 * 8
    acc = core.pmap(shard, [cases[i::nsh] for i in range(nsh)])
    res = acc.extra.pop("residues", set())
    acc.extra["distinct_residues_exercised"] = len(res)
    acc.extra.pop("residues_seen", None)
    return core.finish(
        PROP, tier, seed, acc, t0,
        rule="every multiset of 1..%d residues over the 20 amino acids with ALL its distinct permutations (= every word of "
             "that length), plus all homopolymers X^a (a<=12) and two-residue blocks X^a Y^b (4<=a+b<=12) and long ones (130..1000 residues); per sequence 18 real "
             "getter calls (counts, fractions, FCR, NCPR, mean net charge, expanding, disorder-promoting, 20 aa fractions, "
             "KD 0-9 / Uversky / Wimley-White hydropathy, 3 PPII scales, molecular weight) compared with exact sums over pinned "
             "published tables, 5 identities, and equality across permutations; non-trivial = multisets with >=2 distinct "
             "residues" % Lw,
        bounds={"multiset_size": Lw, "block_total": 12, "tolerance_rel": 1e-9},
        assumptions=["published per-residue values pinned in vmc/refmodel/tables.py"])


def replay(case):
    return check_case(case)[0]
