"""C10 - sliding-window profiles report each window's statistic at its centre; flanks 0; w>N rejected."""
from fractions import Fraction as F

import numpy as np

import zlib

from .. import core, spaces
from ..refmodel import tables as T

PROP = "C10"
ALPHA = "KEGP"
USER_GROUPS = [
    ("one-group", [["K"]]),
    ("two-groups", [["K", "R"], ["E"]]),
    ("lower-case", [["k"], ["e", "d"]]),
    ("overlapping", [["K", "E"], ["E", "G"]]),
    ("three-groups", [["P"], ["G", "A"], ["K", "E", "P", "G"]]),
    ("repeated-members", [["K", "E", "K"], ["g", "G"], ["P", "p", "P", "E"]]),
    ("duplicate-groups", [["E", "K"], ["G"], ["K", "E"], ["g"], ["P"]]),
    ("container-types", [{"k", "e"}, ("g", "P"), "kE", frozenset(["p"]), {"K": 1, "g": 2}.keys()]),
    ("all-absent", [["W"], ["C", "M"]]),               # no group has a member in a {K,E,G,P} word: rows of zeros, too-long windows still rejected
    ("one-absent-one-present", [["W", "F"], ["G", "K"]]),
    ("union-after-overlapping-parts", [["K", "E"], ["E", "G"], ["K", "E", "G"], ["E"], ["K", "E", "G", "P"]]),
]


def stat(kind, win, grp=None):
    w = len(win)
    p = sum(1 for a in win if a in T.POS)
    n = sum(1 for a in win if a in T.NEG)
    if kind == "NCPR":
        return F(p - n, w)
    if kind == "FCR":
        return F(p + n, w)
    if kind == "sigma":
        return F(0) if p + n == 0 else F((p - n) ** 2, w * (p + n))
    if kind == "hydropathy":
        return sum(T.KD_UVERSKY[a] for a in win) / w
    if kind == "comp":
        return F(sum(1 for a in win if a in grp), w)
    raise KeyError(kind)


def ref_profile(kind, seq, w, grp=None):
    N = len(seq)
    lead = (w - 1) // 2
    vals = [F(0)] * N
    for i in range(N - w + 1):
        vals[i + lead] = stat(kind, seq[i:i + w], grp)
    return vals


def cmp_row(row, ref):
    if len(row) != len(ref):
        return "length %d != %d" % (len(row), len(ref))
    for j, (a, b) in enumerate(zip(row, ref)):
        if not core.close(a, float(b), 1e-12, 1e-13):
            return "entry %d (position %d) is %r, expected %s" % (j, j + 1, float(a), b)
    return None


def check_case(case):
    from localcider.sequenceParameters import SequenceParameters as SP
    seq = case["seq"]
    N = len(seq)
    sq = core.short(seq)
    out = []
    calls = 0

    def v(key, what, **kw):
        out.append({"key": key, "what": what, "case": dict(case, **kw)})
    o = core.sp(seq)
    getters = [("NCPR", o.get_linear_NCPR), ("FCR", o.get_linear_FCR), ("sigma", o.get_linear_sigma),
               ("hydropathy", o.get_linear_hydropathy)]
    whole = {"NCPR": o.get_NCPR(), "FCR": o.get_FCR(), "hydropathy": o.get_uversky_hydropathy()}
    whole["sigma"] = 0.0 if whole["FCR"] == 0 else whole["NCPR"] ** 2 / whole["FCR"]
    sig_prof = {}
    wins = range(1, N + 4) if N <= 16 else sorted({1, 2, 4, 5, 6, 8, 9, 12, N // 2, 128, 129, 200, 256, 257, N - 1, N, N + 1, N + 2}
                                                   if N > 200 else {1, 2, 4, 5, 6, 8, 9, 12, N // 2, N - 1, N, N + 1, N + 2})
    if N > 1000:
        wins = sorted({5, 6, 1001, 1100, N - 1, N, N + 1})
    wins = list(wins)
    if case.get("rejected_first") or zlib.crc32(seq.encode()) % 4 == 0:
        wins = [N + 2] + wins        # the (rejected) too-long window is asked FIRST on this object, the valid ones afterwards
    for w in wins:
        for name, g in getters:
            calls += 1
            try:
                arr = g(np.int64(w)) if (w + len(name)) % 3 == 0 else g(w)      # window also as a numpy integer
            except Exception as e:  # noqa
                if w <= N:
                    v("rejects-valid-window:" + name, "%s: get_linear_%s(%d) raised %r" % (sq, name, w, e), w=w, getter=name)
                continue
            if w > N:
                v("window-gt-length-answered:" + name,
                  "%s (N=%d): get_linear_%s(%d) was answered with %r instead of an error" % (sq, N, name, w, np.asarray(arr).tolist()),
                  w=w, getter=name)
                continue
            arr = np.asarray(arr)
            if arr.shape != (2, N):
                v("shape:" + name, "%s: get_linear_%s(%d) has shape %r, expected (2,%d)" % (sq, name, w, arr.shape, N), w=w, getter=name)
                continue
            if list(arr[0]) != list(range(1, N + 1)):
                v("positions:" + name, "%s: get_linear_%s(%d) position row %r" % (sq, name, w, arr[0].tolist()), w=w, getter=name)
            err = cmp_row(arr[1], ref_profile(name, seq, w))
            if err:
                v("profile:" + name, "%s: get_linear_%s(%d): %s; row=%r" % (sq, name, w, err, arr[1].tolist()), w=w, getter=name)
            if w == N and not core.close(arr[1][(w - 1) // 2], whole[name], 1e-12, 1e-13):
                v("w=N-vs-global:" + name, "%s: get_linear_%s(N) = %r but whole-sequence value is %r"
                  % (sq, name, arr[1][(w - 1) // 2], whole[name]), w=w, getter=name)
            if name == "sigma" and w in (5, 6):
                lead = (w - 1) // 2
                sig_prof[w] = arr[1][lead:lead + N - w + 1]
        # composition profiles
        for gname, grps in [("default", None), ("default-explicit", T.DEFAULT_GROUPS)] + USER_GROUPS:
            calls += 1
            try:
                res = o.get_linear_sequence_composition(w) if grps is None else o.get_linear_sequence_composition(w, [(list(g) if isinstance(g, list) else g) for g in grps])
            except Exception as e:  # noqa
                if w <= N:
                    v("rejects-valid-window:composition", "%s: get_linear_sequence_composition(%d,%s) raised %r" % (sq, w, gname, e),
                      w=w, groups=gname)
                continue
            if w > N:
                v("window-gt-length-answered:composition", "%s (N=%d): get_linear_sequence_composition(%d) answered" % (sq, N, w),
                  w=w, groups=gname)
                continue
            ref_groups = T.DEFAULT_GROUPS if grps is None else grps
            try:
                pos, dens = res
                pos = np.asarray(pos)
                dens = np.asarray(dens)
            except Exception:  # noqa
                v("shape:composition", "%s: get_linear_sequence_composition(%d,%s) returned %r" % (sq, w, gname, res), w=w, groups=gname)
                continue
            if list(pos) != list(range(1, N + 1)):
                v("positions:composition", "%s: composition(%d,%s) position row %r" % (sq, w, gname, pos.tolist()), w=w, groups=gname)
            if dens.ndim == 1 and len(ref_groups) == 1:
                dens = dens.reshape(1, -1)
            if dens.shape != (len(ref_groups), N):
                v("shape:composition", "%s: composition(%d,%s) density shape %r, expected (%d,%d)"
                  % (sq, w, gname, dens.shape, len(ref_groups), N), w=w, groups=gname)
                continue
            for gi, grp in enumerate(ref_groups):
                G = set(x.upper() for x in grp)
                err = cmp_row(dens[gi], ref_profile("comp", seq, w, G))
                if err:
                    v("profile:composition", "%s: composition(%d,%s) group %r: %s; row=%r" % (sq, w, gname, grp, err, dens[gi].tolist()),
                      w=w, groups=gname)
                    break
    # delta is the mean squared deviation of the w=5,6 sigma profiles from the global sigma
    tot = 0.0
    for w in (5, 6):
        if w in sig_prof and len(sig_prof[w]):
            tot += float(np.mean((np.asarray(sig_prof[w]) - whole["sigma"]) ** 2))
    calls += 1
    d = o.get_delta()
    if not core.close(d, tot / 2, 1e-12, 1e-13):
        v("delta-vs-sigma-profiles", "%s: get_delta()=%r but the w=5,6 sigma profiles give %r" % (sq, d, tot / 2))
    return out, calls


def shard(s):
    acc = core.Acc()
    L, pre = s
    if pre == "REJECTED-FIRST":
        # freshly imported package; the very first profile requests of the process are rejected ones (window > N), on every getter
        # with default and explicit groups; the usual battery follows
        from ..engines.history import fresh_world
        fresh_world()
        for seq in ("KEGP", "KKEEGPGPKE", "GGGG"):
            v, calls = check_case({"kind": "profiles", "seq": seq, "rejected_first": True, "fresh": True})
            acc.states += 1
            acc.traces += 1
            acc.transitions += calls
            acc.evaluations += calls
            acc.nontrivial += 1
            for x in v:
                acc.viol(x["key"], x["what"], x["case"])
        return acc
    if pre == "ALL20":
        # every residue type in the profiles (hydropathy table, charge classes): X^3 Y^3 for the 20 cyclic neighbour pairs, and
        # window-complete words over all 20 residues
        words = [a * 3 + T.AA[(i + 7) % 20] * 3 for i, a in enumerate(T.AA)] + spaces.window_complete_chunks(T.AA, 2, (L,))[:3]
    else:
        words = spaces.window_complete_chunks(ALPHA, 4, (L,)) if pre == "DB" else spaces.shard_words(ALPHA, L, pre)
    for seq in words:
        with core.istate(seq):
            v, calls = check_case({"kind": "profiles", "seq": seq})
        acc.states += 1
        acc.traces += 1
        acc.transitions += calls
        acc.evaluations += calls
        if len(set(seq)) > 1:
            acc.nontrivial += 1
        acc.out(seq[:6])
        for x in v:
            acc.viol(x["key"], x["what"], x["case"])
        if L >= 5 and len(set(seq)) == 4:
            acc.sample({"seq": seq, "windows": "1..%d" % (L + 3), "api_calls": calls}, cap=1)
    return acc


def _unused():
    acc = None
    return acc


def run(tier, seed, t0):
    N = 5 if tier == "quick" else 7
    shards = spaces.word_shards(ALPHA, 1, N, 3)
    extra = [(L, pre) for L, pre in [(8, "KEGP"), (9, "PGEKK"), (12, "KKEEGGPPKE")]]
    extra += [(44, ("KEGP" * 11)[:42]), (64, ("KKEGPGEEKP" * 7)[:63]), (131, ("KEGPPGEK" * 17)[:130]),
              (300, ("EK" * 150)[:299]), (301, ("K" * 301)[:300]), (270, ("KKKE" * 70)[:269]),
              # windows beyond 1000 residues over sparsely charged linkers (smallest non-zero window fraction 1/w < 0.001)
              (1201, "G" * 599 + "K" + "G" * 600), (1301, ("G" * 400 + "E" + "P" * 248 + "K") * 2)]
    extra += [(21, "DB"), (34, "DB"), (0, "REJECTED-FIRST"), (27, "ALL20")]
    acc = core.pmap(shard, shards + extra)
    acc.merge(core.run_optimized(PROP, tier))      # the rejection battery once more under `python -O`
    return core.finish(
        PROP, tier, seed, acc, t0,
        rule="every word over {K,E,G,P} of length 1..%d (plus all completions of three 8-12-mer prefixes, and 44-, 64- and 131-residue sequences with 13 selected windows) x every "
             "window 1..N+3 x {get_linear_NCPR, FCR, sigma, hydropathy} + get_linear_sequence_composition with default, explicit-default "
             "and 10 user group lists (incl. lists none of whose groups occurs in the sequence), plus 20 words X^3Y^3 and three 27-residue window-complete words covering all 20 residue types: shape (2,N), positions 1..N, entry i+floor((w-1)/2) = exact statistic of window i, flanks 0, "
             "w=N equals the whole-sequence getter, w>N must raise (for a quarter of the words the rejected window is asked first and the valid ones afterwards on the same object; in a freshly imported package the first requests of the process are rejected ones), and delta == mean over w=5,6 of the mean squared deviation of "
             "the sigma profile from the global sigma; non-trivial = words with >=2 distinct letters" % N,
        bounds={"N": N, "windows": "1..N+3", "user_group_lists": len(USER_GROUPS)},
        assumptions=["hydropathy profile is on the Uversky-normalised Kyte-Doolittle scale (it equals get_uversky_hydropathy at w=N)",
                     "a single user group may come back 1-D or (1,N)"])


def opt_shards(tier):
    return [(shard, (4, "KE")), (shard, (3, "")), (shard, (0, "REJECTED-FIRST"))]


def replay(case):
    if case.get("fresh"):
        a = shard((0, "REJECTED-FIRST"))
        return [x for x in a.violations if x["key"] == case.get("key", x["key"])] or a.violations
    with core.istate(case["seq"]):       # the same interpreter state as in the exploration
        return check_case(case)[0]
