"""C20 - HTML rendering shows each residue once, in order, in its palette colour; palette updates validate-then-commit."""
import re
from collections import deque

import io
import sys

from .. import core
from ..refmodel import tables as T

PROP = "C20"
CYCLE = "ACDEFGHIKLMNPQRSTVWY"
TOKEN = re.compile(r'( ?)((?:<br>)?)( ?)<span style="color:([^"]*)">(.)</span>')
FULL = re.compile(r'^<p style="font-family:Courier;">((?: ?(?:<br>)? ?<span style="color:[^"]*">.</span>)*)</p>$', re.S)


def SP(s):
    from localcider.sequenceParameters import SequenceParameters
    return SequenceParameters(s)


def valid_palettes():
    pals = [("default", dict(T.DEFAULT_PALETTE))]
    for c in T.HTML_COLOURS:
        pals.append(("all-" + c, {a: c for a in T.AA}))
    pals.append(("rotating", {a: T.HTML_COLOURS[(3 * i + 1) % 17] for i, a in enumerate(T.AA)}))
    return pals


def ops_list(full):
    """(name, argument, valid?)  valid=None means dont-care."""
    ops = []
    for name, p in valid_palettes():
        ops.append((name, p, True))
    bases = valid_palettes() if full else [valid_palettes()[0], valid_palettes()[5], valid_palettes()[-1]]
    for name, p in bases:
        for a in T.AA:
            d = dict(p)
            del d[a]
            ops.append(("%s-missing-%s" % (name, a), d, False))
            for bn, bad in (("pink", "pink"), ("hex", "#ff0000"), ("empty", ""), ("none", None), ("int", 5)):
                if not full and bn in ("none", "int"):
                    continue
                d = dict(p)
                d[a] = bad
                ops.append(("%s-%s-%s" % (name, bn, a), d, False))
    for bn, bad in (("None", None), ("list", list(T.AA)), ("string", "red"), ("int", 3), ("list-of-pairs", [(a, "red") for a in T.AA])):
        ops.append(("nondict-" + bn, bad, False))
    # a missing amino acid together with enough other keys to bring the dictionary (back) to 20 or more entries
    for a in (T.AA if full else T.AA[::4]):
        for extras in (("a",), ("B", "Z", "X"), (a.lower(), "J", "O", "U")):
            d = dict(T.DEFAULT_PALETTE)
            del d[a]
            for e in extras:
                d[e] = "red"
            ops.append(("missing-%s-with-extra-%s" % (a, "".join(extras)), d, False))
    # dont-care: upper-case colour names, extra keys
    d = dict(T.DEFAULT_PALETTE)
    d["A"] = "Red"
    ops.append(("uppercase-colour", d, None))
    d = dict(T.DEFAULT_PALETTE)
    d["X"] = "red"
    ops.append(("extra-key", d, None))
    return ops


def extra_key_palettes():
    """Dictionaries that give each of the 20 amino acids a standard colour AND carry extra keys: accepted, extras ignored."""
    out = []
    for extra in ({"X": "red"}, {"-": "pink"}, {"B": "#ff0000", "U": None}, {"a": "Red"}, {None: "black"}):
        d = {a: T.HTML_COLOURS[(5 * i + 2) % 17] for i, a in enumerate(T.AA)}
        d.update(extra)
        out.append(d)
    return out


def _unused_ops():
    ops = []
    return ops


def parse_html(html):
    """-> list of (residue, colour, n_space, has_br) or None if the markup is not of the expected form."""
    if not FULL.match(html):
        return None
    body = FULL.match(html).group(1)
    out = []
    pos = 0
    for m in TOKEN.finditer(body):
        if m.start() != pos:
            return None
        pos = m.end()
        out.append((m.group(5), m.group(4), len(m.group(1)) + len(m.group(3)), bool(m.group(2))))
    if pos != len(body):
        return None
    return out


def check_render(seq, palette, html, case, out):
    def v(key, what):
        out.append({"key": key, "what": what, "case": dict(case, seq=seq)})
    toks = parse_html(html)
    if toks is None:
        v("html-shape", "%s: unexpected markup %r" % (seq, html[:200]))
        return
    if "".join(t[0] for t in toks) != seq:
        v("html-residues", "%s: stripping the markup gives %r" % (seq, "".join(t[0] for t in toks)))
        return
    stripped = re.sub(r"<[^>]*>", "", html).replace(" ", "")
    if stripped != seq:
        v("html-residues", "%s: tag-stripped text is %r" % (seq, stripped))
    for i, (res, col, nsp, br) in enumerate(toks):
        if col != palette[res]:
            v("html-colour", "%s: residue %d (%s) drawn in %r, palette says %r" % (seq, i + 1, res, col, palette[res]))
            return
        if (nsp == 1) != (i % 10 == 0) or nsp > 1:
            v("html-block-of-10", "%s: residue %d has %d leading space(s)" % (seq, i + 1, nsp))
            return
        if br != (i % 50 == 0):
            v("html-block-of-50", "%s: residue %d %s a line break" % (seq, i + 1, "has" if br else "lacks"))
            return


def observe_palette(o):
    try:
        toks = parse_html(o.get_HTMLColorString())
    except Exception as e:  # noqa  (rendering failed: reported by the caller as an observation that matches no palette)
        return "rendering raised %r" % (e,)
    if toks is None:
        return None
    return {r: c for r, c, _, _ in toks}


def build(hist):
    o = SP(CYCLE)
    for arg in hist:
        try:
            o.set_HTMLColorResiduePalette(arg)
        except Exception:  # noqa
            pass
    return o


def check_scenarios(tier):
    """(1) one dictionary object reused and edited in place by the caller; (2) the very first object of a freshly imported
    package gets a palette update and objects created later must still start from the default."""
    from ..engines.history import fresh_world
    acc = core.Acc()
    pals = valid_palettes()
    for name, p in pals:
        for fault in ("bad-colour", "missing-key"):
            case = {"kind": "reused-dict", "palette": name, "fault": fault}
            acc.transitions += 3
            acc.traces += 1
            o = SP(CYCLE)
            d = dict(p)
            try:
                o.set_HTMLColorResiduePalette(d)
            except Exception as e:  # noqa
                acc.viol("valid-palette-rejected", "valid palette %s rejected (%r)" % (name, e), case)
                continue
            # the caller now edits ITS dictionary; the object's palette must not follow
            if fault == "bad-colour":
                d["K"] = "pink"
            else:
                del d["D"]
            try:
                obs = observe_palette(o)
            except Exception as e:  # noqa
                obs = "rendering raised %r" % (e,)
            if obs != p:
                acc.viol("palette-aliases-callers-dict", "after set(d) with palette %s and then an edit of d by the caller (%s), rendering shows %r"
                         % (name, fault, obs if isinstance(obs, str) else sorted(obs.items())[:8]), case)
                continue
            try:
                o.set_HTMLColorResiduePalette(d)
                acc.viol("invalid-palette-accepted", "the edited dictionary (%s) was accepted" % fault, case)
            except Exception:  # noqa
                pass
            try:
                obs = observe_palette(o)
            except Exception as e:  # noqa
                obs = "rendering raised %r" % (e,)
            if obs != p:
                acc.viol("rejected-update-changed-palette", "palette %s: after the rejected re-submission of the edited dictionary rendering "
                         "shows %r" % (name, obs if isinstance(obs, str) else sorted(obs.items())[:8]), case)
    # extra keys: every one of the 20 residues gets a standard colour, so the update is accepted and the extras are ignored
    for i, d in enumerate(extra_key_palettes()):
        case = {"kind": "extra-keys", "index": i}
        acc.transitions += 1
        acc.traces += 1
        o = SP(CYCLE)
        try:
            o.set_HTMLColorResiduePalette(dict(d))
        except Exception as e:  # noqa
            acc.viol("valid-palette-rejected", "a palette colouring all 20 residues validly but carrying extra keys %r was rejected (%r)"
                     % ([k for k in d if k not in T.AASET], e), case)
            continue
        if observe_palette(o) != {a: d[a] for a in T.AA}:
            acc.viol("palette-not-committed", "palette with extra keys: rendering shows %r" % (sorted(observe_palette(o).items())[:6],), case)
    # objects that were not built from a string: children of the pair swap / charge swap, a backend object built with an explicit
    # charge pattern, each wrapped or bare - their FIRST palette update is validated like any other, and they render with the default
    import numpy as _np
    from localcider.backend.sequence import Sequence as _Seq
    from localcider.sequenceParameters import SequenceParameters as _SP0
    makers = {"swapRes-child": lambda: SP(CYCLE).SeqObj.swapRes(0, 1), "swapRes-child-wrapped": lambda: _SP0(SeqObj=SP(CYCLE).SeqObj.swapRes(2, 5)),
              "explicit-charge-pattern": lambda: _Seq(CYCLE, -1, _np.array(SP(CYCLE).SeqObj.chargePattern, dtype=float)),
              "full-shuffle-child": lambda: SP(CYCLE).SeqObj.full_shuffle(set(range(len(CYCLE)))),
              "shuffled-sequence": lambda: SP(CYCLE).get_shuffled_sequence(set(range(len(CYCLE))))}
    firsts = [("missing-W", {a: "red" for a in T.AA if a != "W"}, False), ("bad-colour", dict({a: "red" for a in T.AA}, K="pink"), False),
              ("empty", {}, False), ("valid", {a: "olive" for a in T.AA}, True)]
    for mname, mk in makers.items():
        for fname, pal, ok in firsts:
            case = {"kind": "derived-object", "palette": mname, "index": fname}
            acc.transitions += 2
            acc.traces += 1
            try:
                o = mk()
            except Exception as e:  # noqa
                acc.extra.setdefault("context_errors", []).append("%s: %r" % (mname, e))
                continue
            seq_ = o.seq if hasattr(o, "seq") else o.get_sequence()
            try:
                o.set_HTMLColorResiduePalette(dict(pal))
                accepted = True
            except Exception:  # noqa
                accepted = False
            if accepted != ok:
                acc.viol("invalid-palette-accepted" if accepted else "valid-palette-rejected", "first palette update (%s) on a %s object was %s"
                         % (fname, mname, "accepted" if accepted else "rejected"), case)
            try:
                toks = parse_html(o.get_HTMLColorString())
            except Exception as e:  # noqa
                acc.viol("html-raises", "rendering a %s object after a %s first update raised %r" % (mname, fname, e), case)
                continue
            want = pal if ok else T.DEFAULT_PALETTE
            if toks is None or "".join(r for r, c, _, _ in toks) != seq_ or any(c != want[r] for r, c, _, _ in toks):
                acc.viol("palette-not-committed" if ok else "rejected-update-changed-palette", "%s object after a %s first update renders %r"
                         % (mname, fname, None if toks is None else sorted(set((r, c) for r, c, _, _ in toks))[:5]), case)
    # duplicates made outside the library API (pickle with every protocol, deepcopy, copy of the backend object) render with the
    # palette the original had; and every colour name is accepted while warnings are errors / numpy errors raise / stdout is ASCII-only
    import copy as _copy
    import pickle as _pickle
    pal_c = {a: T.HTML_COLOURS[(13 * i + 4) % 17] for i, a in enumerate(T.AA)}
    routes = [("pickle-%d" % pr, (lambda x, pr=pr: _pickle.loads(_pickle.dumps(x, protocol=pr)))) for pr in range(_pickle.HIGHEST_PROTOCOL + 1)]
    routes += [("deepcopy", _copy.deepcopy), ("deepcopy-of-backend", lambda x: _SP0(SeqObj=_copy.deepcopy(x.SeqObj))),
               ("copy-of-backend", lambda x: _SP0(SeqObj=_copy.copy(x.SeqObj)))]
    for rname, rf in routes:
        case = {"kind": "clone", "palette": rname}
        acc.transitions += 2
        acc.traces += 1
        try:
            A = SP(CYCLE)
            A.set_HTMLColorResiduePalette(dict(pal_c))
            B = rf(A)
            obs = observe_palette(B)
        except Exception as e:  # noqa
            acc.viol("html-raises", "a %s duplicate of an object with a custom palette could not be made or rendered: %r" % (rname, e), case)
            continue
        if obs != pal_c:
            acc.viol("clone-loses-palette", "a %s duplicate of an object with a custom palette renders %r" % (rname, sorted(obs.items())[:5] if isinstance(obs, dict) else obs), case)
    import warnings as _w
    import numpy as _np
    for c in T.HTML_COLOURS:
        case = {"kind": "strict-interpreter", "palette": c}
        acc.transitions += 1
        acc.traces += 1
        old_err = _np.geterr()
        old_out = sys.stdout
        try:
            with _w.catch_warnings():
                _w.simplefilter("error")
                _w.filterwarnings("ignore", category=SyntaxWarning)   # compile-time warnings of a (re)import are not part of the call
                _np.seterr(all="raise")
                sys.stdout = io.TextIOWrapper(io.BytesIO(), encoding="ascii", errors="strict", write_through=True)
                o = SP(CYCLE)
                o.set_HTMLColorResiduePalette({a: (c if i % 2 else "black") for i, a in enumerate(T.AA)})
                html = o.get_HTMLColorString()
        except Exception as e:  # noqa
            acc.viol("valid-palette-rejected", "with warnings as errors, numpy errors raising and an ASCII-only stdout a valid palette using %r raised %r" % (c, e), case)
            continue
        finally:
            sys.stdout = old_out
            _np.seterr(**old_err)
        toks = parse_html(html)
        if toks is None or any(col != (c if T.AA.index(r) % 2 else "black") for r, col, _, _ in toks):
            acc.viol("palette-not-committed", "strict interpreter state: palette using %r not rendered" % c, case)
    # two handles on one sequence object (a second SequenceParameters built with SeqObj=, and the backend object itself): an update
    # accepted through one handle, then a rejected one through the other - every handle must still render the accepted palette
    from localcider.sequenceParameters import SequenceParameters as _SP
    p1 = {a: T.HTML_COLOURS[(11 * i + 5) % 17] for i, a in enumerate(T.AA)}
    p2 = {a: T.HTML_COLOURS[(2 * i + 9) % 17] for i, a in enumerate(T.AA)}
    bads = [{a: "red" for a in T.AA if a != "W"}, dict(p1, K="notacolour"), {}, None]
    for bi, bad in enumerate(bads):
        for route in ("second-wrapper", "backend-object", "second-wrapper-then-first"):
            case = {"kind": "two-handles", "route": route, "index": bi}
            acc.transitions += 3
            acc.traces += 1
            A = SP(CYCLE)
            B = _SP(SeqObj=A.SeqObj)
            try:
                if route == "backend-object":
                    A.SeqObj.set_HTMLColorResiduePalette(dict(p1))
                    want = p1
                else:
                    B.set_HTMLColorResiduePalette(dict(p1))
                    want = p1
                    if route == "second-wrapper-then-first":
                        A.set_HTMLColorResiduePalette(dict(p2))
                        want = p2
            except Exception as e:  # noqa
                acc.viol("valid-palette-rejected", "valid palette through %s rejected (%r)" % (route, e), case)
                continue
            for h, hn in ((A, "first"), (B, "second")):
                try:
                    h.set_HTMLColorResiduePalette(bad if not isinstance(bad, dict) else dict(bad))
                    acc.viol("invalid-palette-accepted", "invalid palette %d accepted through the %s handle" % (bi, hn), case)
                except Exception:  # noqa
                    pass
                for h2, hn2 in ((A, "first"), (B, "second")):
                    obs = observe_palette(h2)
                    if obs != want:
                        acc.viol("rejected-update-changed-palette", "two handles on one sequence object (%s): after a rejected update through the %s "
                                 "handle the %s handle renders %r instead of the last accepted palette"
                                 % (route, hn, hn2, obs if isinstance(obs, str) else sorted(obs.items())[:5]), case)
                        break
    # the same mapping with its keys inserted in other orders (a dictionary's insertion order carries no meaning)
    base = {a: T.HTML_COLOURS[(7 * i + 3) % 17] for i, a in enumerate(T.AA)}
    orders = {"reversed": list(reversed(T.AA)), "chemistry-groups": list("KRHDESTNQCGPAVILMFYW"), "rotated": list(T.AA[9:]) + list(T.AA[:9]),
              "interleaved": list(T.AA[::2]) + list(T.AA[1::2]), "one-key-reinserted": [a for a in T.AA if a != "D"] + ["D"],
              "by-colour": sorted(T.AA, key=lambda a: (base[a], a))}
    for oname, order in orders.items():
        for src in ("distinct", "default"):
            case = {"kind": "key-order", "order": oname, "palette": src}
            want = base if src == "distinct" else dict(T.DEFAULT_PALETTE)
            d = {a: want[a] for a in order}
            acc.transitions += 1
            acc.traces += 1
            o = SP(CYCLE)
            try:
                o.set_HTMLColorResiduePalette(d)
            except Exception as e:  # noqa
                acc.viol("valid-palette-rejected", "a valid palette whose keys were inserted in %s order was rejected (%r)" % (oname, e), case)
                continue
            obs = observe_palette(o)
            if obs != want:
                bad = sorted(a for a in T.AA if not isinstance(obs, dict) or obs.get(a) != want[a])[:5]
                acc.viol("palette-depends-on-key-order", "palette with keys inserted in %s order: residues %r are rendered in another residue's "
                         "colour" % (oname, bad), case)
    # other API areas between the update and the rendering (plots, analyses, shuffles) must not touch the palette
    import matplotlib.pyplot as plt
    from ..apivec import api_vector
    for name, p in pals:
        if name not in ("all-white", "all-black", "rotating", "default"):
            continue
        case = {"kind": "context", "palette": name}
        acc.transitions += 1
        acc.traces += 1
        o = SP("KKEESSTTGGPPAAWWYYHHCC" * 2)
        try:
            o.set_HTMLColorResiduePalette(dict(p))
            orig = plt.savefig
            plt.savefig = lambda *a, **k: None
            try:
                api_vector(o)
                o.save_linearComposition("/nonexistent/x.png")
                o.save_phaseDiagramPlot("/nonexistent/y.png", label="p")
                o.show_linearNCPR(getFig=True)
                o.get_shuffled_sequence([0])
            finally:
                plt.savefig = orig
                plt.close("all")
        except Exception as e:  # noqa
            acc.extra.setdefault("context_errors", []).append(repr(e)[:100])
        toks = parse_html(o.get_HTMLColorString())
        obs = None if toks is None else {r: c for r, c, _, _ in toks}
        if obs != {r: p[r] for r in set(o.get_sequence())}:
            acc.viol("palette-changed-by-other-calls", "palette %s: after analyses / plots / a shuffle on the same object rendering shows %r"
                     % (name, None if obs is None else sorted(obs.items())), case)
    for name, p in pals[1:]:
        case = {"kind": "first-object", "palette": name}
        acc.transitions += 2
        acc.traces += 1
        fresh_world()
        first = SP(CYCLE)            # the first Sequence this package instance ever builds
        try:
            first.set_HTMLColorResiduePalette(dict(p))
        except Exception as e:  # noqa
            acc.viol("valid-palette-rejected", "valid palette %s rejected (%r)" % (name, e), case)
            continue
        later = SP(CYCLE)
        if observe_palette(later) != T.DEFAULT_PALETTE or observe_palette(first) != p:
            acc.viol("palette-leaks-between-objects", "in a fresh package the first object got palette %s; an object created afterwards renders "
                     "with %r" % (name, sorted(observe_palette(later).items())[:6]), case)
    acc.states += 2 * len(pals)
    return acc


def render_inputs(full):
    seqs = [a + b for a in T.AA for b in T.AA] + list(T.AA)
    for r in range(20):
        rot = CYCLE[r:] + CYCLE[:r]
        long_ = rot * 6
        for L in (range(1, 121) if full else (1, 9, 10, 11, 20, 49, 50, 51, 60, 99, 100, 101, 120)):
            seqs.append(long_[:L])
    # tracts: a run of 10..25 identical residues starting at every offset 38..52 inside an irregular sequence (runs that start
    # mid-block and cross a multiple of 10 / 50), and two-residue block sequences A^k B^k with k = 3..26
    host = (CYCLE * 8)
    for start in (range(38, 53) if not full else range(0, 60)):
        for run in ((10, 14, 25) if not full else (9, 10, 11, 14, 20, 25, 51)):
            seqs.append(host[:start] + "Q" * run + host[start:start + 30])
    for k in range(3, 27):
        seqs.append(("A" * k + "K" * k) * (120 // (2 * k) + 1))
    return seqs


def explore(full, tier):
    acc = core.Acc()
    ops = ops_list(full)
    names = [o[0] for o in ops]
    start = tuple(sorted(T.DEFAULT_PALETTE.items()))
    seen = {start: []}
    frontier = deque([start])
    pending_render = [start]
    while frontier:
        st = frontier.popleft()
        hist = seen[st]
        model = dict(st)
        for name, arg, valid in ops:
            acc.transitions += 1
            acc.traces += 1
            case = {"kind": "palette", "tier": tier, "history": [names[i] for i in hist], "op": name}
            bystander = SP(CYCLE)
            o = build([ops[i][1] for i in hist])
            try:
                o.set_HTMLColorResiduePalette(arg)
                ok = True
            except Exception:  # noqa
                ok = False
            obs = observe_palette(o)
            # the palette belongs to the object: a live bystander and an object created afterwards keep the default
            if observe_palette(bystander) != T.DEFAULT_PALETTE or observe_palette(SP(CYCLE)) != T.DEFAULT_PALETTE:
                acc.viol("palette-leaks-between-objects", "after %r + %s another object no longer renders with the default palette"
                         % (case["history"], name), case)
            if valid is None:
                acc.dont_care += 1
                continue
            if valid and not ok:
                acc.viol("valid-palette-rejected", "after %r the valid palette %s was rejected" % (case["history"], name), case)
                continue
            if not valid and ok:
                acc.viol("invalid-palette-accepted", "after %r the invalid palette %s was accepted" % (case["history"], name), case)
                continue
            exp = dict(arg) if valid else model
            if obs != exp:
                key = "palette-not-committed" if valid else "rejected-update-changed-palette"
                acc.viol(key, "after %r, %s %s: rendering shows palette %r, expected %r"
                         % (case["history"], name, "accepted" if ok else "rejected",
                            None if obs is None else sorted(obs.items())[:6], sorted(exp.items())[:6]), case)
                continue
            if valid:
                t = tuple(sorted(exp.items()))
                if t not in seen:
                    seen[t] = hist + [names.index(name)]
                    frontier.append(t)
                    pending_render.append(t)
    acc.states = len(seen)
    return acc, seen, ops


def render_shard(args):
    full, tier, st_hist_names, pal_items, seqs = args
    acc = core.Acc()
    ops = {o[0]: o[1] for o in ops_list(full)}
    palette = dict(pal_items)
    for seq in seqs:
        o = SP(seq)
        for n in st_hist_names:
            o.set_HTMLColorResiduePalette(ops[n])
        out = []
        try:
            html = o.get_HTMLColorString()
        except Exception as e:  # noqa
            out.append({"key": "html-raises", "what": "%s raised %r" % (seq, e), "case": {"kind": "render", "seq": seq}})
            html = None
        if html is not None:
            check_render(seq, palette, html, {"kind": "render", "tier": tier, "history": st_hist_names}, out)
        acc.transitions += 1
        acc.evaluations += 1
        acc.traces += 1
        acc.out((len(seq), st_hist_names[-1] if st_hist_names else "default"))
        if len(seq) > 10:
            acc.nontrivial += 1
        for x in out:
            acc.viol(x["key"], x["what"], x["case"])
        if len(seq) == 11:
            acc.sample({"seq": seq, "palette_history": st_hist_names, "html": html}, cap=1)
    return acc


def _opt_explore(_):
    return explore(False, "quick")[0]


def opt_shards(tier):
    return [(_opt_explore, None), (check_scenarios, "quick")]


def replay(case):
    if case.get("kind") in ("reused-dict", "first-object", "extra-keys", "context", "key-order", "two-handles", "derived-object", "clone", "strict-interpreter"):
        a = check_scenarios("quick")
        return [v for v in a.violations if v["case"].get("palette") == case.get("palette") and v["case"]["kind"] == case["kind"]
                and v["case"].get("index") == case.get("index") and v["case"].get("order") == case.get("order")
                and v["case"].get("route") == case.get("route")]
    full = case.get("tier") == "thorough"
    ops = {o[0]: o for o in ops_list(full)}
    out = []
    o = SP(case.get("seq", CYCLE))
    model = dict(T.DEFAULT_PALETTE)
    for n in case["history"]:
        try:
            o.set_HTMLColorResiduePalette(ops[n][1])
            model = dict(ops[n][1])
        except Exception:  # noqa
            pass
    if case["kind"] == "render":
        check_render(case["seq"], model, o.get_HTMLColorString(), case, out)
        return out
    name, arg, valid = ops[case["op"]]
    bystander = SP(CYCLE)
    try:
        o.set_HTMLColorResiduePalette(arg)
        ok = True
    except Exception:  # noqa
        ok = False
    obs = observe_palette(o)
    if observe_palette(bystander) != T.DEFAULT_PALETTE or observe_palette(SP(CYCLE)) != T.DEFAULT_PALETTE:
        out.append({"key": "palette-leaks-between-objects", "what": "another object no longer renders with the default palette", "case": case})
    if valid and not ok:
        out.append({"key": "valid-palette-rejected", "what": "valid palette %s rejected" % name, "case": case})
    elif not valid and ok:
        out.append({"key": "invalid-palette-accepted", "what": "invalid palette %s accepted" % name, "case": case})
    else:
        exp = dict(arg) if valid else model
        if obs != exp:
            out.append({"key": "palette-not-committed" if valid else "rejected-update-changed-palette",
                        "what": "rendering shows %r expected %r" % (obs, exp), "case": case})
    return out


def run(tier, seed, t0):
    full = tier == "thorough"
    acc, seen, ops = explore(full, tier)
    names = [o[0] for o in ops]
    seqs = render_inputs(full)
    shards = []
    for st, hist in seen.items():
        hn = [names[i] for i in hist]
        for chunk in range(0, len(seqs), 400):
            shards.append((full, tier, hn, st, seqs[chunk:chunk + 400]))
    # very long sequences (hundreds of line blocks): two palette states, lengths around multiples of 50 beyond 256 blocks
    longs = [(CYCLE * 1400)[:L] for L in ((2551, 12800, 12801, 12851) if tier == "quick" else (2551, 5000, 12800, 12801, 12851, 25650, 51201))]
    for st, hist in list(seen.items())[:2]:
        for q in longs:
            shards.append((full, tier, [names[i] for i in hist], st, [q]))
    acc.merge(core.pmap(render_shard, shards))
    acc.states = len(seen)
    acc.merge(check_scenarios(tier))
    acc.merge(core.run_optimized(PROP, tier))      # palette validation once more under `python -O`
    return core.finish(
        PROP, tier, seed, acc, t0,
        rule="BFS over histories of set_HTMLColorResiduePalette with %d arguments (19 valid palettes: default, 17 one-colour, one "
             "using all 17 colours; for %s of them every single fault: each of 20 keys missing / mapped to pink, #ff0000, ''%s; 5 "
             "non-dict arguments); canonical state = current palette as observed by rendering the 20-residue cycle; every transition "
             "on a fresh object with the history replayed; accepted <=> valid, accepted => palette == argument, rejected => "
             "exception and palette unchanged; fixpoint reached. In every palette state every 1- and 2-residue word and the 20 "
             "rotations of the 20-letter cycle at lengths %s are rendered and parsed: one span per residue in order, colour = model "
             "palette entry, exactly one space before residues 0,10,20,.., a <br> before residues 0,50,100,.., stripped markup == "
             "sequence. Scenarios: the caller edits its own dictionary in place after an accepted update (the palette must not follow, the "
             "re-submission must be rejected and change nothing); in a freshly imported package the very first object receives each "
             "valid palette and an object created afterwards must still render with the default. a dictionary that colours all 20 residues validly and carries extra keys is accepted (extras ignored); pickle / deepcopy / copy duplicates keep the palette; all 17 colours are accepted with warnings as errors, numpy errors raising and an ASCII-only stdout; a missing residue together with extra keys that keep the dictionary at 20+ entries is rejected; runs of 10-25 identical residues starting at offsets 38..52 and A^kB^k blocks are rendered; objects not built from a string (swap children, explicit charge pattern, shuffles) validate their first update and render with the default; sequences of 2551..12851 residues (thorough 51201); two palettes resubmitted with their keys inserted in six other orders render identically; with two handles on one sequence object (second wrapper / backend object) an update accepted through one and rejected through the other leaves every handle on the accepted palette; after analyses, plots and a shuffle on the same object the palette is unchanged. dont-care: upper-case colour names; non-trivial = renders longer than one block of 10" % (
                 len(ops), "all" if full else "3", ", None, 5" if full else "", "1..120" if full else "{1,9,10,11,20,49,50,51,60,99,100,101,120}"),
        bounds={"palette_ops": len(ops), "render_inputs_per_state": len(seqs), "depth": "fixpoint"},
        assumptions=["the palette is observed through rendering only (no attribute reads)"])
