"""C08 - get_phasePlotRegion() is total and follows the FCR/NCPR thresholds exactly (rational reference)."""
from .. import core
from ..refmodel import charge as R

PROP = "C08"


def realise(p, n, N, how, k):
    z = N - p - n
    if how == "blocks":
        pat = "+" * p + "-" * n + "0" * z
    elif how == "reversed":
        pat = "0" * z + "-" * n + "+" * p
    else:
        rem = {"+": p, "-": n, "0": z}
        a = []
        while sum(rem.values()):
            for c in "0+-":
                if rem[c]:
                    a.append(c)
                    rem[c] -= 1
        pat = "".join(a)
    return R.spell_base(pat) if k == 0 else R.spell_rotating(pat, k)


def check_case(case):
    from localcider.sequenceParameters import SequenceParameters as SP
    p, n, N = case["p"], case["n"], case["N"]
    exp = R.region(p, n, N)
    out = []
    seq = realise(p, n, N, case["how"], case["k"])
    try:
        with core.istate(seq):
            got = core.sp(seq).get_phasePlotRegion()
    except Exception as e:  # noqa
        return [{"key": "exception", "what": "get_phasePlotRegion raised %r for (n+,n-,N)=(%d,%d,%d)" % (e, p, n, N),
                 "case": dict(case, seq=seq)}], exp, None
    if got != exp or type(got) is not int:
        out.append({"key": "region-mismatch", "what": "(n+,n-,N)=(%d,%d,%d) [%s]: region %r, thresholds give %r"
                    % (p, n, N, seq if N <= 40 else seq[:37] + "...", got, exp),
                    "case": dict(case, seq=seq, expected=exp, observed=got)})
    return out, exp, got


def shard(s):
    acc = core.Acc()
    from fractions import Fraction as F
    for (p, n, z) in s["comps"]:
        N = p + n + z
        hows = [("blocks", 0), ("reversed", 1)]
        if N <= s["NI"]:
            hows += [("interleaved", 0), ("interleaved", 2)]
        acc.states += 1
        acc.traces += 1
        fcr = F(p + n, N)
        ncpr = abs(F(p - n, N))
        if fcr in (F(1, 4), F(7, 20)) or ncpr == F(7, 20):
            acc.nontrivial += 1   # exactly on a threshold
        for how, k in hows:
            v, exp, got = check_case({"kind": "region", "p": p, "n": n, "N": N, "how": how, "k": k})
            acc.transitions += 1
            acc.evaluations += 1
            acc.out(got)
            for x in v:
                acc.viol(x["key"], x["what"], x["case"])
        if fcr == F(7, 20):
            acc.sample({"n+": p, "n-": n, "N": N, "region": got, "note": "FCR == 7/20 exactly"}, cap=1)
    return acc


def near_threshold(N):
    """Compositions of a chain of N residues that lie on or next to one of the three thresholds."""
    out = set()
    for t in {N // 4 - 1, N // 4, N // 4 + 1, (7 * N) // 20 - 1, (7 * N) // 20, (7 * N) // 20 + 1, (7 * N) // 20 + 2}:
        if 0 <= t <= N:
            out.add((t, 0))
            out.add((0, t))
            out.add((t - t // 3, t // 3))
    for d in {(7 * N) // 20 - 1, (7 * N) // 20, (7 * N) // 20 + 1}:
        for tot in (min(N, d + 2 * (N // 10)), min(N, (7 * N) // 20 + 3)):
            if 0 <= d <= tot and (tot - d) % 2 == 0:
                a, b = (tot + d) // 2, (tot - d) // 2
                out.add((a, b))
                out.add((b, a))
    return sorted((p, n, N - p - n) for p, n in out if p + n <= N)


def shard_long(s):
    acc = core.Acc()
    for N in s["Ns"]:
        for (p, n, z) in near_threshold(N):
            acc.states += 1
            acc.traces += 1
            acc.nontrivial += 1
            v, exp, got = check_case({"kind": "region", "p": p, "n": n, "N": N, "how": "blocks", "k": 0})
            acc.transitions += 1
            acc.evaluations += 1
            acc.out(got)
            for x in v:
                acc.viol(x["key"], x["what"], x["case"])
    return acc


def shard_any(s):
    return shard_long(s) if "Ns" in s else shard(s)


def run(tier, seed, t0):
    NK = 60 if tier == "quick" else 150
    comps = list(R.compositions(NK))
    nsh = 16 * 8
    shards = [{"comps": comps[i::nsh], "NI": 12} for i in range(nsh)]
    NL = 1300 if tier == "quick" else 6000
    longNs = list(range(NK + 1, NL + 1))
    shards += [{"Ns": longNs[i::64]} for i in range(64)]
    acc = core.pmap(shard_any, shards)
    return core.finish(
        PROP, tier, seed, acc, t0,
        rule="state = one triple (n+,n-,N), every triple with 1<=N<=%d, realised as a block sequence (K/E/G) and a reversed "
             "block sequence in a rotating 20-residue spelling (plus two interleaved realisations for N<=12); one real "
             "get_phasePlotRegion() call per realisation compared with the exact rational threshold cascade; any exception is a "
             "violation; for EVERY chain length up to %d the compositions on or next to each threshold (about 20 per length) are checked as "
             "well; non-trivial = triples lying exactly on a threshold (FCR=1/4, FCR=7/20 or |NCPR|=7/20); outcomes = "
             "distinct regions returned" % (NK, NL),
        bounds={"N": NK},
        assumptions=["reference cascade vmc/refmodel/charge.py:region uses exact rationals; a correctly rounded float "
                     "quotient equals the double 0.35/0.25 exactly when the rational is 7/20 / 1/4 and is >= 1/(20N) away otherwise"],
        min_outcomes=5)


def replay(case):
    return check_case(case)[0]
