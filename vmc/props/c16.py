"""C16 - phosphosites are exactly the requested in-range S/T/Y; derived values follow (E2 BFS with a list model)."""
import itertools
from collections import deque

from .. import core, spaces

PROP = "C16"
ALPHA = "STYKEG"
LONG = ["KSEKTGKEYEKE", "KKSKKYEEEETE",
        # phospho-states inside kappa's clamp window (delta / delta-max in (1, 1.1): kappa is exactly 1.0)
        "KKSETEYEK", "EDSKRKRKYE",
        # the same residue type at position 1 and at a two-digit position (labels like S1 / S10), any order of setting
        "SGKEGKEGKSGE"]
LONG4 = ["GSKKEYEDTGRS"]     # four sites: 65 states (thorough only)


def SP(s):
    from localcider.sequenceParameters import SequenceParameters
    return SequenceParameters(s)


def model_set(seq, sites, arg):
    """Reference list model: first-set order, no repeats, only in-range S/T/Y."""
    sites = list(sites)
    items = [arg] if isinstance(arg, int) else list(arg)
    for x in items:
        if 1 <= x <= len(seq) and seq[x - 1] in "STY" and x not in sites:
            sites.append(x)
    return sites


def arg_alphabet(N, full):
    ints = list(range(-(N + 2), N + 3))
    ops = [("clear", None)] + [("set", i) for i in ints]
    if full:
        for a, b in itertools.product(ints, repeat=2):
            ops.append(("set", [a, b]))
            ops.append(("set", (a, b)))
        ops.append(("set", [1, N, 1]))
        ops.append(("set", [N, 2, N, 0, N + 1]))
    else:
        ops.append(("set", [N, 1]))
        ops.append(("set", (1, 1, N + 1)))
    return ops


_ARGMOD = []


def apply(o, op):
    if op[0] == "clear":
        o.clear_phosphosites()
    else:
        a = op[1]
        arg = list(a) if isinstance(a, list) else a
        o.set_phosphosites(arg)
        if isinstance(a, list) and arg != list(a):
            _ARGMOD.append((list(a), list(arg)))      # the caller's own list was edited by the call


def probe(o):
    """All read-only phospho queries, results discarded: they are part of the history, not judged here."""
    try:
        o.get_phosphosites()
        o.get_phosphosequence()
        o.get_kappa_after_phosphorylation()
        o.get_full_phosphostatus_kappa_distribution()
        o.get_all_phosphorylatable_sites()
    except Exception:  # noqa
        pass


def build(seq, hist, probes=False):
    """probes: True = query after every call; 'before-clear' = query once, just before each clear."""
    o = SP(seq)
    if probes is True:
        probe(o)
    for op in hist:
        if probes == "before-clear" and op[0] == "clear":
            probe(o)
        apply(o, op)
        if probes is True:
            probe(o)
    return o


def two_epochs(seq, states, out):
    """Every ordered pair of reachable site lists (s1, s2): set s1 site by site, query, clear, set s2, judge."""
    n = 0
    for s1 in states:
        if not s1:
            continue
        if len(states) <= 20:
            seconds = [s2 for s2 in states if s2]
        else:   # many states: only the second epochs most likely to collide - the same sites in every other order
            seconds = [s2 for s2 in states if s2 and set(s2) == set(s1)]
        for s2 in seconds:
            hist = [("set", x) for x in s1] + [("clear", None)] + [("set", x) for x in s2]
            case = {"kind": "hist", "seq": seq, "history": hist, "probes": "before-clear"}
            n += 1
            try:
                o = build(seq, hist, probes="before-clear")
            except Exception as e:  # noqa
                out.append({"key": "set-raises", "what": "%s: two-epoch history %r raised %r" % (seq, hist, e), "case": case})
                continue
            state_invariants(seq, list(s2), o, case, out)
    return n


_kap = {}


def fresh_six(s):
    r = _kap.get(s)
    if r is None:
        o = SP(s)
        r = _kap[s] = (o.get_kappa(), o.get_fraction_positive(), o.get_fraction_negative(), o.get_FCR(), o.get_NCPR(),
                       o.get_mean_hydropathy())
        if len(_kap) > 100000:
            _kap.clear()
    return r


def state_invariants(seq, sites, o, case, out):
    calls = 0

    def v(key, what):
        out.append({"key": key, "what": what, "case": case})
    try:
        got = o.get_phosphosites()
        calls += 1
        if got != sites:
            v("phosphosites-list", "%s: get_phosphosites()=%r, model says %r" % (seq, got, sites))
            return calls
        if o.get_sequence() != seq:
            v("sequence-changed", "%s: stored sequence became %r" % (seq, o.get_sequence()))
        exp_pseq = "".join("E" if (i + 1) in sites else a for i, a in enumerate(seq))
        ps = o.get_phosphosequence()
        calls += 2
        if ps != exp_pseq:
            v("phosphosequence", "%s sites %r: get_phosphosequence()=%r, expected %r" % (seq, sites, ps, exp_pseq))
        ka = o.get_kappa_after_phosphorylation()
        calls += 1
        if ka != fresh_six(exp_pseq)[0]:
            v("kappa-after-phosphorylation", "%s sites %r: %r but kappa(%s)=%r" % (seq, sites, ka, exp_pseq, fresh_six(exp_pseq)[0]))
        # again with the object's own delta-max already cached
        o.get_kappa()
        ka2 = o.get_kappa_after_phosphorylation()
        calls += 2
        if ka2 != fresh_six(exp_pseq)[0]:
            v("kappa-after-phosphorylation", "%s sites %r: after get_kappa() on the same object, get_kappa_after_phosphorylation()=%r "
              "but kappa(%s)=%r" % (seq, sites, ka2, exp_pseq, fresh_six(exp_pseq)[0]))
        sty = o.get_all_phosphorylatable_sites()
        calls += 1
        if sty != [i + 1 for i, a in enumerate(seq) if a in "STY"]:
            v("all-phosphorylatable-sites", "%s: get_all_phosphorylatable_sites()=%r" % (seq, sty))
        dist = o.get_full_phosphostatus_kappa_distribution()
        calls += 1
        k = len(sites)
        if len(dist) != 2 ** k:
            v("distribution-size", "%s sites %r: %d entries, expected %d" % (seq, sites, len(dist), 2 ** k))
        else:
            for idx, status in enumerate(itertools.product("01", repeat=k)):
                s2 = list(seq)
                for j, b in enumerate(status):
                    if b == "1":
                        s2[sites[j] - 1] = "E"
                s2 = "".join(s2)
                e = dist[idx]
                six = tuple(e[:6])
                st = tuple(str(x) for x in e[6]) if len(e) > 6 else None
                if st != status:
                    v("distribution-order", "%s sites %r: entry %d has status %r, binary counting order gives %r"
                      % (seq, sites, idx, e[6] if len(e) > 6 else None, status))
                    break
                ref = fresh_six(s2)
                if any(not core.close(a, b, 1e-12, 1e-15) for a, b in zip(six, ref)) or len(six) != 6:
                    v("distribution-values", "%s sites %r status %r: %r but the substituted sequence %s gives %r"
                      % (seq, sites, status, six, s2, ref))
                    break
        if o.get_phosphosites() != sites or o.get_sequence() != seq:
            v("query-changed-state", "%s: read-only phospho queries changed the site list to %r" % (seq, o.get_phosphosites()))
        # what the queries returned belongs to the caller: overwrite every returned container, then one more transition on this
        # object (every position offered at once) must still follow the model
        from ..engines.history import scramble
        for x in (got, sty, dist, o.get_all_phosphorylatable_sites(), o.get_phosphosites()):
            scramble(x)
        if case.get("kind") != "noscramble":
            everything = list(range(1, len(seq) + 1))
            o.set_phosphosites(everything)
            calls += 1
            exp2 = model_set(seq, sites, everything)
            if o.get_phosphosites() != exp2:
                v("returned-container-is-internal-state", "%s sites %r: after the caller overwrote the lists it was handed by the read-only "
                  "queries, set_phosphosites(1..N) gives %r, model says %r" % (seq, sites, o.get_phosphosites(), exp2))
            elif o.get_phosphosequence() != "".join("E" if (i + 1) in exp2 else a for i, a in enumerate(seq)):
                v("returned-container-is-internal-state", "%s: phosphosequence wrong after the caller overwrote returned lists" % seq)
    except Exception as e:  # noqa
        v("query-raises", "%s sites %r: a phospho query raised %r" % (seq, sites, e))
    return calls


def explore(seq, full):
    """BFS over set/clear histories of one sequence. -> (violations, states, transitions, calls)"""
    ops = arg_alphabet(len(seq), full)
    out = []
    seen = {(): []}
    frontier = deque([()])
    ntrans = calls = 0
    o = build(seq, [])
    calls += state_invariants(seq, [], o, {"kind": "hist", "seq": seq, "history": []}, out)
    while frontier:
        st = frontier.popleft()
        hist = seen[st]
        for op in ops:
            ntrans += 1
            case = {"kind": "hist", "seq": seq, "history": [list(h) if False else h for h in hist] + [op]}
            exp = [] if op[0] == "clear" else model_set(seq, list(st), op[1])
            try:
                bystander = SP(seq)
                o = build(seq, hist, probes=(ntrans % 5 == 0 and len(seq) <= 4))
                del _ARGMOD[:]
                if ntrans % 7 == 3:
                    # every seventh transition is made while warnings are errors and numpy errors raise (same outcome required)
                    import warnings as _w
                    import numpy as _np
                    _old = _np.geterr()
                    with _w.catch_warnings():
                        _w.simplefilter("error")
                        _w.filterwarnings("ignore", category=SyntaxWarning)   # compile-time warnings of a (re)import are not part of the call
                        _np.seterr(all="raise")
                        try:
                            apply(o, op)
                        finally:
                            _np.seterr(**_old)
                else:
                    apply(o, op)
                if _ARGMOD:
                    out.append({"key": "argument-list-modified", "what": "%s: set_phosphosites(%r) edited the caller's list to %r (the same list handed to "
                                "another object afterwards would request different positions)" % (seq, _ARGMOD[0][0], _ARGMOD[0][1]), "case": case})
                got = o.get_phosphosites()
                calls += len(hist) + 2
                if bystander.get_phosphosites() != [] or SP(seq).get_phosphosites() != []:
                    out.append({"key": "phosphosites-leak-between-objects",
                                "what": "%s after %r + %s(%r): another object of the same sequence now lists sites %r"
                                % (seq, hist, op[0], op[1], bystander.get_phosphosites()), "case": case})
            except Exception as e:  # noqa
                out.append({"key": "set-raises" if op[0] == "set" else "clear-raises",
                            "what": "%s after %r: %s(%r) raised %r" % (seq, hist, op[0], op[1], e), "case": case})
                continue
            if got != exp:
                out.append({"key": "phosphosites-list", "what": "%s after %r: %s(%r) -> get_phosphosites()=%r, model says %r"
                            % (seq, hist, op[0], op[1], got, exp), "case": case})
                continue
            if o.get_sequence() != seq:
                out.append({"key": "sequence-changed", "what": "%s: stored sequence became %r" % (seq, o.get_sequence()), "case": case})
            t = tuple(exp)
            if t not in seen:
                seen[t] = hist + [op]
                frontier.append(t)
                calls += state_invariants(seq, exp, o, case, out)
    ntrans += two_epochs(seq, sorted(seen), out)
    return out, len(seen), ntrans, calls


def check_copies_and_types(seq):
    """(1) objects obtained from shuffles that cannot change the sequence are still independent objects;
    (2) positions given as numpy integers of any width inside a list / tuple / array behave like plain ints."""
    import numpy as np
    out = []
    calls = 0
    N = len(seq)
    sty = [i + 1 for i, a in enumerate(seq) if a in "STY"]
    case = {"kind": "copies", "seq": seq}
    if sty:
        for route in ("shuffle-all-frozen", "shuffle-all-frozen-after"):
            try:
                parent = SP(seq)
                if route == "shuffle-all-frozen":
                    parent.set_phosphosites(list(sty))
                child = parent.get_shuffled_sequence(frozen=set(range(N)))
                calls += 2
                if child.get_sequence() != seq:
                    continue
                if route == "shuffle-all-frozen":
                    if child.get_phosphosites() != []:
                        out.append({"key": "copy-shares-phosphosites", "what": "%s: a shuffled copy (all positions frozen) of an object with "
                                    "sites %r starts with sites %r" % (seq, sty, child.get_phosphosites()), "case": case})
                    child.clear_phosphosites()
                    if parent.get_phosphosites() != sty:
                        out.append({"key": "copy-shares-phosphosites", "what": "%s: clearing the copy changed the original's sites to %r"
                                    % (seq, parent.get_phosphosites()), "case": case})
                else:
                    child.set_phosphosites(list(sty))
                    if parent.get_phosphosites() != []:
                        out.append({"key": "copy-shares-phosphosites", "what": "%s: set_phosphosites on a shuffled copy changed the original "
                                    "to %r" % (seq, parent.get_phosphosites()), "case": case})
            except Exception as e:  # noqa
                out.append({"key": "query-raises", "what": "%s: shuffled-copy scenario raised %r" % (seq, e), "case": case})
    # numpy integers
    ints = list(range(-1, N + 2))
    for dt in (np.int8, np.int16, np.int32, np.int64, np.uint8, np.uint16, np.uint32):
        for make in ("list", "tuple", "array"):
            vals = [x for x in ints if x >= 0 or np.issubdtype(dt, np.signedinteger)]
            arg = [dt(x) for x in vals]
            arg = arg if make == "list" else (tuple(arg) if make == "tuple" else np.array(vals, dtype=dt))
            exp = model_set(seq, [], [int(x) for x in vals])
            calls += 1
            try:
                o = SP(seq)
                o.set_phosphosites(arg)
                got = o.get_phosphosites()
            except Exception as e:  # noqa
                out.append({"key": "set-raises", "what": "%s: set_phosphosites(%s of %s) raised %r" % (seq, make, dt.__name__, e),
                            "case": dict(case, dtype=dt.__name__, container=make)})
                continue
            if got != exp:
                out.append({"key": "phosphosites-list", "what": "%s: set_phosphosites(%s of %s %r) -> %r, model says %r"
                            % (seq, make, dt.__name__, vals, got, exp), "case": dict(case, dtype=dt.__name__, container=make)})
    return out, calls


def opt_shards(tier):
    return [(shard, [("SYK", True), ("KSEKTGKEYEKE", False)])]


def replay(case):
    if case.get("kind") == "two-wrappers":
        return two_wrappers(case["seq"])[0]
    if case.get("kind") == "clones":
        return [x for x in clones(case["seq"])[0] if x["case"].get("route") == case.get("route")]
    if case.get("kind") == "copies":
        return check_copies_and_types(case["seq"])[0]
    seq = case["seq"]
    hist = [tuple(h) if isinstance(h, list) else h for h in case["history"]]
    hist = [(h[0], (h[1] if not isinstance(h[1], list) else h[1])) for h in hist]
    out = []
    sites = []
    del _ARGMOD[:]
    try:
        o = SP(seq)
        for op in hist:
            if case.get("probes") == "before-clear" and op[0] == "clear":
                probe(o)
            apply(o, op)
            if case.get("probes") is True:
                probe(o)
            sites = [] if op[0] == "clear" else model_set(seq, sites, op[1])
    except Exception as e:  # noqa
        return [{"key": "set-raises", "what": "%s: history %r raised %r" % (seq, hist, e), "case": case}]
    if _ARGMOD:
        out.append({"key": "argument-list-modified", "what": "%s: set_phosphosites(%r) edited the caller's list to %r" % (seq, _ARGMOD[0][0], _ARGMOD[0][1]),
                    "case": case})
    state_invariants(seq, sites, o, case, out)
    return out


def clones(seq):
    """Duplicates made outside the library API (pickle round trips with every protocol, copy.deepcopy) of an object with sites set:
    the duplicate answers every phospho-query like the original and is independent of it afterwards."""
    import copy
    import pickle
    out = []
    calls = 0
    sty = [i + 1 for i, a in enumerate(seq) if a in "STY"]
    if not sty:
        return out, calls
    case = {"kind": "clones", "seq": seq}
    order = sty[1::2] + sty[0::2]
    routes = [("pickle-%d" % pr, (lambda x, pr=pr: pickle.loads(pickle.dumps(x, protocol=pr)))) for pr in range(0, pickle.HIGHEST_PROTOCOL + 1)]
    routes += [("deepcopy", copy.deepcopy), ("deepcopy(backend)", None)]
    ps = "".join("E" if (i + 1) in order else a for i, a in enumerate(seq))
    want = (order, ps, fresh_six(ps)[0], 2 ** len(order))
    for name, f in routes:
        try:
            A = SP(seq)
            A.set_phosphosites(list(order))
            if f is None:
                from localcider.sequenceParameters import SequenceParameters as _SP
                B = _SP(SeqObj=copy.deepcopy(A.SeqObj))
            else:
                B = f(A)
            calls += 2
            got = (B.get_phosphosites(), B.get_phosphosequence(), B.get_kappa_after_phosphorylation(), len(B.get_full_phosphostatus_kappa_distribution()))
            if got != want:
                out.append({"key": "clone-differs", "what": "%s: a %s duplicate of an object with sites %r reports (sites, phosphosequence, kappa after, "
                            "#states) = %r, the original %r" % (seq, name, order, got, want), "case": dict(case, route=name)})
                continue
            B.clear_phosphosites()
            B.set_phosphosites(sty[0])
            if A.get_phosphosites() != order or B.get_phosphosites() != [sty[0]]:
                out.append({"key": "clone-not-independent", "what": "%s: after clear/set on the %s duplicate the original lists %r and the duplicate %r"
                            % (seq, name, A.get_phosphosites(), B.get_phosphosites()), "case": dict(case, route=name)})
        except Exception as e:  # noqa
            out.append({"key": "query-raises", "what": "%s: %s duplicate scenario raised %r" % (seq, name, e), "case": dict(case, route=name)})
    return out, calls


def two_wrappers(seq):
    """Two SequenceParameters objects around ONE backend object: sites set / cleared through either are seen by both, and the
    phospho-queries of both follow the shared list (also when one of them answered the query before the other changed the list)."""
    from localcider.sequenceParameters import SequenceParameters as _SP
    out = []
    calls = 0
    sty = [i + 1 for i, a in enumerate(seq) if a in "STY"]
    if len(sty) < 2:
        return out, calls
    case = {"kind": "two-wrappers", "seq": seq}

    def expect(sites):
        ps = "".join("E" if (i + 1) in sites else a for i, a in enumerate(seq))
        return ps, fresh_six(ps)[0]
    try:
        A = SP(seq)
        A.set_phosphosites([sty[0]])
        A.get_kappa_after_phosphorylation()
        A.get_full_phosphostatus_kappa_distribution()
        B = _SP(SeqObj=A.SeqObj)
        steps = [("B.set", lambda: B.set_phosphosites([sty[1]]), [sty[0], sty[1]]), ("A.query", lambda: None, [sty[0], sty[1]]),
                 ("B.clear", lambda: B.clear_phosphosites(), []), ("A.set", lambda: A.set_phosphosites(list(reversed(sty))), list(reversed(sty))),
                 ("A.clear+B.set", lambda: (A.clear_phosphosites(), B.set_phosphosites(sty[-1])), [sty[-1]])]
        for name, f, want in steps:
            f()
            calls += 1
            for h, hn in ((A, "first"), (B, "second")):
                ps, ka = expect(want)
                got = (h.get_phosphosites(), h.get_phosphosequence(), h.get_kappa_after_phosphorylation(), len(h.get_full_phosphostatus_kappa_distribution()))
                calls += 4
                if got != (want, ps, ka, 2 ** len(want)):
                    out.append({"key": "two-wrappers-disagree", "what": "%s: after %s the %s wrapper reports (sites, phosphosequence, kappa after, "
                                "#states) = %r, expected %r" % (seq, name, hn, got, (want, ps, ka, 2 ** len(want))), "case": case})
                    return out, calls
    except Exception as e:  # noqa
        out.append({"key": "query-raises", "what": "%s: two-wrapper scenario raised %r" % (seq, e), "case": case})
    return out, calls


MANY = ["KSEKTYKESEYKTE", "SKTEYKSETKYESK", "STYSTYSTYSTKE", "KKSTYSTK", "SSTTYYKE"]     # 6, 7, 11 and 6 (adjacent) sites: 64 / 128 / 2048 on-off states


def many_sites(seq):
    """One state only - every S/T/Y position set, in descending order - but with a distribution of 2^6 / 2^7 entries."""
    sty = [i + 1 for i, a in enumerate(seq) if a in "STY"]
    out = []
    calls = 0
    for order in ((list(reversed(sty)), sty[1::2] + sty[0::2]) if len(sty) < 10 else (sty[1::2] + sty[0::2],)):
        hist = [("set", list(order))]
        case = {"kind": "hist", "seq": seq, "history": hist}
        try:
            o = build(seq, hist)
        except Exception as e:  # noqa
            out.append({"key": "set-raises", "what": "%s: set_phosphosites(%r) raised %r" % (seq, order, e), "case": case})
            continue
        calls += 1 + state_invariants(seq, model_set(seq, [], order), o, case, out)
    return out, 2, 2, calls


def shard(items):
    acc = core.Acc()
    for seq, full in items:
        v, nst, ntr, calls = many_sites(seq) if full == "many" else explore(seq, full)
        if full == "many":
            v2, c2 = two_wrappers(seq)
            v3, c3 = clones(seq) if len(seq) <= 14 and sum(seq.count(c) for c in "STY") <= 7 else ([], 0)
            v = v + v2 + v3
            calls += c2 + c3
            ntr += c2 + c3
        if len(seq) >= 3 and full != "many":
            v2, c2 = check_copies_and_types(seq)
            v = v + v2
            calls += c2
            ntr += c2
        acc.states += nst
        acc.transitions += ntr
        acc.traces += ntr
        acc.evaluations += calls
        if nst > 1:
            acc.nontrivial += nst - 1
        acc.out((seq[:4], nst))
        for x in v:
            acc.viol(x["key"], x["what"], x["case"])
        if nst >= 5:
            acc.sample({"seq": seq, "states": nst, "transitions": ntr, "arg_alphabet": len(arg_alphabet(len(seq), full))}, cap=1)
    return acc


def run(tier, seed, t0):
    items = []
    if tier == "quick":
        for L in (1, 2, 3):
            items += [(w, True) for w in spaces.shard_words("SYKG", L, "")]
        items += [(w, False) for w in LONG]
    else:
        for L in (1, 2, 3, 4):
            items += [(w, True) for w in spaces.shard_words(ALPHA, L, "")]
        items += [(w, False) for w in spaces.shard_words("SYK", 5, "")]
        items += [(w, False) for w in LONG + LONG4]
    # (KKSTYSTK: with every site on, delta / delta-max is 1.15 - beyond kappa's clamp window, the raw quotient is the answer)
    items += [(w, "many") for w in (MANY if tier == "thorough" else MANY[:4])]
    items += [(w, "many") for w in LONG]          # (two-wrapper scenario on the 12-mers as well)
    items.sort(key=lambda it: -(sum(it[0].count(c) for c in "STY") * 10 + len(it[0])))
    nsh = 16 * 8
    acc = core.pmap(shard, [items[i::nsh] for i in range(nsh)])
    acc.merge(core.run_optimized(PROP, tier))      # the rejection battery once more under `python -O`
    return core.finish(
        PROP, tier, seed, acc, t0,
        rule="for every word (%s) and two 12-mers: BFS over histories of clear_phosphosites() / set_phosphosites(x) with x in "
             "{every int -(N+2)..N+2, every ordered pair of them as list and as tuple, two lists with duplicates} (12-mers and 5-mers: "
             "single ints + two lists); canonical state = ordered phosphosite list; every transition is executed on a fresh object "
             "with the history replayed (every fifth one, for words of up to 4 residues, with all read-only phospho queries interleaved after each call) and compared with a "
             "plain list model; in addition, for every ordered pair (s1,s2) of reachable site lists (with more than 20 reachable lists: every pair listing the same sites) the two-epoch history set s1 / queries / "
             "clear / set s2 is run on one object; search to the fixpoint (all orderings of all subsets of "
             "the S/T/Y sites). In every state: get_phosphosites == model, sequence unchanged, get_phosphosequence = E at exactly "
             "those positions, get_kappa_after_phosphorylation = kappa of a fresh object on that sequence, distribution has 2^k "
             "entries in binary counting order whose six numbers equal those of the substituted sequence, "
             "get_all_phosphorylatable_sites constant (also for sequences with 6, 7 and 11 sites all set: 64 / 128 / 2048 distribution entries); a list argument is not edited by the call; two wrappers around one backend object see each other's set/clear calls; pickle (every protocol) and deepcopy duplicates keep the sites and are independent; every seventh transition is made with warnings as errors and numpy errors raising; in every state the lists the queries returned are overwritten by the caller and one more set call must still follow the model; for every sequence of >=3 residues a shuffled copy with all positions frozen must be an independent object (sites neither inherited nor shared), and positions given as numpy integers of seven widths in lists/tuples/arrays must behave like ints; non-trivial = states with >=1 site" % (
                 "over {S,Y,K,G}, length 1..3" if tier == "quick" else "over {S,T,Y,K,E,G}, length 1..4; over {S,Y,K}, length 5"),
        bounds={"words": len(items), "depth": "fixpoint"},
        assumptions=["other object state (delta-max cache etc.) is C15's job; non-integer positions are not in the property"])
