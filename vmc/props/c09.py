"""C09 - pH-dependent charge follows Henderson-Hasselbalch; pH range check; isoelectric point neutralises the chain."""
import itertools
import math

from .. import core
from ..refmodel import tables as T

PROP = "C09"
CLASSES = "KRHDECYPG"       # 'G' stands for every non-titratable, non-proline residue
OTHER = "GASTNQILMFWV"


def ph_grid(tier):
    g = set()
    step = 0.25 if tier == "thorough" else 0.5
    x = -0.5
    while x <= 14.5 + 1e-12:
        g.add(round(x, 6))
        x += step
    for pk in T.PKA.values():
        g.update((pk - 1e-6, pk, pk + 1e-6))
    g.update((-1e-9, 0.0, 1e-9, 14 - 1e-9, 14.0, 14 + 1e-9, 7.4))
    # the floats right next to the two bounds and far away from them (a range test folded into one expression loses them)
    import math
    g.update((math.nextafter(0.0, -1.0), -1e-300, 0.3 - 3 * 0.1, -1e-17, -4e-16, -1e-15, math.nextafter(14.0, 15.0), 14 + 4e-15,
              math.nextafter(14.0, 0.0), math.nextafter(0.0, 1.0), -1e308, 1e308, float("inf"), float("-inf"), -14.0, 28.0, -7.0, 21.0))
    # every midpoint the isoelectric-point bisection can visit in its first four halvings
    g.update(14.0 * k / 16 for k in range(1, 16))
    return sorted(g)


def hh(counts, pH):
    pos = sum(counts.get(a, 0) / (1.0 + 10.0 ** (pH - T.PKA[a])) for a in T.TITR_POS)
    neg = sum(counts.get(a, 0) / (1.0 + 10.0 ** (T.PKA[a] - pH)) for a in T.TITR_NEG)
    return pos, neg


def make_seq(comp, k=0):
    out = []
    for c, n in zip(CLASSES, comp):
        for i in range(n):
            out.append(OTHER[(i + k) % len(OTHER)] if c == "G" else c)
    # deterministic interleave so that blocks are not the only arrangement
    if k % 2:
        out = out[::2] + out[1::2]
    return "".join(out)


def check_titration(case, grid):
    from localcider.sequenceParameters import SequenceParameters as SP
    seq = case["seq"]
    N = len(seq)
    counts = {a: seq.count(a) for a in "KRHDECY"}
    ntit = sum(counts.values())
    npro = seq.count("P")
    out = []
    calls = 0

    def v(key, what, **kw):
        out.append({"key": key, "what": what, "case": dict(case, **kw)})
    o = core.sp(seq)
    sty = [i + 1 for i, a in enumerate(seq) if a in "STY"]
    if sty and (len(seq) + seq.count("Y")) % 2 == 0:
        # phosphosites registered on the object (every S/T/Y) are bookkeeping for the phospho-queries; the pH-dependent charge is a
        # function of the sequence and must not notice them
        try:
            o.set_phosphosites(list(sty))
            o.get_kappa_after_phosphorylation()
            calls += 2
        except Exception:  # noqa
            pass
    if case.get("pI_first"):
        try:
            o.get_isoelectric_point()      # same object: its result is judged by the pI case, here it is only history
            calls += 1
        except Exception:  # noqa
            pass
    prev = None
    import numpy as _np
    for gi, pH in enumerate(grid):
        inside = 0.0 <= pH <= 14.0
        # the same value in other numeric types: Python int for whole numbers, numpy float64
        if float(pH).is_integer() and 0 <= pH <= 14 and gi % 2 == 1:
            pH = (_np.int8, _np.int16, _np.int32, _np.uint8, _np.int64, _np.uint16)[(gi // 2 + len(seq)) % 6](int(pH))
        elif float(pH).is_integer() and gi % 2 == 0:
            pH = int(pH)
        elif gi % 3 == 0:
            pH = _np.float64(pH)
        try:
            ncpr = o.get_NCPR(pH)
            fcr = o.get_FCR(pH)
            mnc = o.get_mean_net_charge(pH)
            fer = o.get_fraction_expanding(pH)
            calls += 4
            ok = True
        except Exception as e:  # noqa
            ok = False
            calls += 1
            if inside:
                v("ph-in-range-rejected", "%s: pH=%r inside [0,14] raised %r" % (seq, pH, e), pH=pH)
        if not ok:
            continue
        if not inside:
            v("ph-out-of-range-accepted", "%s: pH=%r outside [0,14] was answered (NCPR=%r)" % (seq, pH, ncpr), pH=pH)
            continue
        pos, neg = hh(counts, pH)
        exp = {"NCPR": (pos - neg) / N, "FCR": (pos + neg) / N, "mean_net_charge": abs(pos - neg) / N,
               "fraction_expanding": (pos + neg + npro) / N}
        got = {"NCPR": ncpr, "FCR": fcr, "mean_net_charge": mnc, "fraction_expanding": fer}
        for k in exp:
            if not core.close(got[k], exp[k], 1e-11, 1e-12):
                v("HH:" + k, "%s at pH %r: get_%s=%r, Henderson-Hasselbalch sum gives %r" % (seq, pH, k, got[k], exp[k]),
                  pH=pH, param=k, observed=got[k], expected=exp[k])
        if not (abs(ncpr) <= fcr + 1e-15 and fcr <= ntit / N + 1e-15):
            v("bounds", "%s at pH %r: |NCPR|=%r, FCR=%r, titratable/N=%r" % (seq, pH, abs(ncpr), fcr, ntit / N), pH=pH)
        if prev is not None and ncpr > prev[1] + 1e-15:
            v("not-monotone", "%s: NCPR(pH=%r)=%r > NCPR(pH=%r)=%r" % (seq, pH, ncpr, prev[0], prev[1]), pH=pH)
        prev = (pH, ncpr)
    return out, calls


def check_pI(case):
    from localcider.sequenceParameters import SequenceParameters as SP
    import localcider.backend.sequence as S
    seq = case["seq"]
    counts = {a: seq.count(a) for a in "KRHDECY"}
    ntit = sum(counts.values())
    out = []
    n = [0]
    orig = S.Sequence.charge_at_pH

    class TooMany(Exception):
        pass

    def counting(self, *a, **k):
        n[0] += 1
        if n[0] > 400:
            raise TooMany()
        return orig(self, *a, **k)
    S.Sequence.charge_at_pH = counting
    try:
        try:
            o_ = SP(seq)
            sty_ = [i + 1 for i, a in enumerate(seq) if a in "STY"]
            if sty_ and (len(seq) + seq.count("Y")) % 2 == 1:
                o_.set_phosphosites(sty_)          # registered phosphosites are not part of the sequence the pI is defined on
            pI = o_.get_isoelectric_point()
        except TooMany:
            out.append({"key": "pI-does-not-terminate", "what": "%s: get_isoelectric_point made > 400 charge evaluations"
                        % short(seq), "case": case})
            return out, n[0], None
        except Exception as e:  # noqa
            out.append({"key": "pI-raises", "what": "%s: get_isoelectric_point raised %r" % (short(seq), e), "case": case})
            return out, n[0], None
    finally:
        S.Sequence.charge_at_pH = orig
    if ntit == 0:
        if pI != 7.0:
            out.append({"key": "pI-no-titratable", "what": "%s: nothing titrates but pI=%r (expected 7.0)" % (short(seq), pI),
                        "case": case})
        return out, n[0], pI
    if not isinstance(pI, float) or pI != pI:
        out.append({"key": "pI-type", "what": "%s: pI=%r" % (short(seq), pI), "case": case})
        return out, n[0], pI
    pos, neg = hh(counts, pI)
    mean = (pos - neg) / ntit
    if not abs(mean) <= 0.02 + 1e-12:
        out.append({"key": "pI-not-neutral", "what": "%s: at returned pI=%r the mean charge per titratable residue is %r (>0.02)"
                    % (short(seq), pI, mean), "case": dict(case, pI=pI, mean=mean)})
    return out, n[0], pI


def short(s):
    return s if len(s) <= 40 else "%s...(%d)" % (s[:30], len(s))


def check_case(case, grid=None):
    if case["kind"] == "pI":
        v, c, _ = check_pI(case)
        return v, c
    return check_titration(case, grid or ph_grid(case.get("tier", "thorough")))


def shard(s):
    acc = core.Acc()
    grid = ph_grid(s["tier"])
    for case in s["cases"]:
        case = dict(case, tier=s["tier"])
        stack_ = core.istate(case["seq"] + case["kind"])
        stack_.__enter__()
        try:
            if case["kind"] == "pI":
                v, c, pI = check_pI(case)
            else:
                v, c = check_titration(case, grid)
        finally:
            stack_.__exit__(None, None, None)
        if case["kind"] == "pI":
            acc.out(("pI", None if pI is None else round(pI, 6)))
            acc.extra.setdefault("pI_charge_evals", set()).add(c)
            if pI is not None and (pI > 14 or pI < 0):
                acc.bump("pI_outside_0_14_bracket_widened")
                acc.sample({"seq": short(case["seq"]), "pI": pI, "charge_evaluations": c}, cap=1)
        else:
            acc.out(("comp", case["seq"][:12]))
        acc.states += 1
        acc.traces += 1
        acc.transitions += c
        acc.evaluations += c
        if len(set(case["seq"]) & set("KRHDECY")) >= 2:
            acc.nontrivial += 1
        for x in v:
            acc.viol(x["key"], x["what"], x["case"])
    return acc


def merge_max(acc):
    pass


def run(tier, seed, t0):
    n = 4 if tier == "quick" else 6
    cases = []
    idx = 0
    for comp in itertools.product(range(n + 1), repeat=len(CLASSES)):
        tot = sum(comp)
        if 1 <= tot <= n:
            idx += 1
            seq = make_seq(comp, idx)
            cases.append({"kind": "titration", "seq": seq, "pI_first": idx % 2 == 0})
            cases.append({"kind": "pI", "seq": seq})
    sizes = (1, 2, 5, 10, 100, 1000)
    for a in sizes:
        for x in "RKHDECY":
            cases.append({"kind": "pI", "seq": x * a})
            for y in "RKHDECYG":
                if y == x:
                    continue
                for b in (1, 2, 5, 50):
                    if b <= a:
                        cases.append({"kind": "pI", "seq": x * a + y * b})
    # a (count, length) lattice for the isoelectric point: c residues of one titratable type in a chain of L
    LL = 200 if tier == "quick" else 600
    for L in range(1, LL + 1):
        for x in "KDHYRC":
            for c in sorted({1, 2, 3, max(1, L // 7), max(1, (3 * L) // 10)}):
                if c <= L:
                    cases.append({"kind": "pI", "seq": x * c + "G" * (L - c)})
        if L >= 5:
            cases.append({"kind": "pI", "seq": "KK" + "DDD" + "G" * (L - 5)})
    grid = ph_grid(tier)
    nsh = 16 * 6
    shards = [{"tier": tier, "cases": cases[i::nsh]} for i in range(nsh)]
    acc = core.pmap(shard, shards)
    acc.merge(core.run_optimized(PROP, tier))      # the rejection battery once more under `python -O`
    acc.extra["pI_charge_evals_max"] = max(acc.extra.pop("pI_charge_evals", {0}))
    return core.finish(
        PROP, tier, seed, acc, t0,
        rule="state = one sequence: every composition over the 9 behaviour classes {K,R,H,D,E,C,Y,P,other} with total 1..%d "
             "(the pH functions depend on the sequence only through these counts and N), each x a pH grid of %d values "
             "(-0.5..14.5, every pKa and pKa+-1e-6, 0, 14, +-1e-9 around both ends, the 15 bisection midpoints 14k/16; for every other "
             "composition get_isoelectric_point() is called first on the same object): get_NCPR/FCR/mean_net_charge/"
             "fraction_expanding(pH) vs an independent Henderson-Hasselbalch sum, monotone NCPR, |NCPR|<=FCR<=titratable/N, "
             "rejection exactly outside [0,14]; for half of the sequences containing S/T/Y every such position is registered as a phosphosite first (the pH-dependent values are those of the sequence); get_isoelectric_point on each of them and on extreme sequences X^a Y^b "
             "(a up to 1000) and on a (count, length) lattice (1-3, L/7, 3L/10 residues of each of K,D,H,Y,R,C in a chain of every length up to %d) with charge_at_pH counted (<=400) and the reference mean charge per titratable residue at the "
             "returned pH within 0.02; non-trivial = sequences with >=2 kinds of titratable residue" % (n, len(grid), LL),
        bounds={"composition_total": n, "pH_grid": len(grid), "extreme_sizes": list(sizes)},
        assumptions=["EMBOSS pKa values pinned in vmc/refmodel/tables.py"])


def opt_shards(tier):
    cases = []
    for seq in ("KRHDECYPG", "GSGS", "HHDDEE", "KKKK"):
        cases += [{"kind": "titration", "seq": seq, "pI_first": False}, {"kind": "pI", "seq": seq}]
    return [(shard, {"tier": tier, "cases": cases})]


def replay(case):
    return check_case(case)[0]
