"""C15 - read-only queries are history-independent and never change the object (E2: BFS to the state fixpoint)."""
import multiprocessing as mp

from .. import core
from ..engines import history as H

PROP = "C15"
SEQ_A = "SKEKTGKEYEKE"            # charged 12-mer with S/T/Y; phosphosites set in the order 9, 1, 5
SEQ_B = "GSGSTGNQAGYG"            # uncharged: kappa -1 path
SEQ_C = "GSGSGSGSGSKKKGSGSGSEEEGSGS"  # 26-mer, 20 neutrals: the >=18-neutral delta-max regime
SEQ_D = "EDSKRKRKYE"                  # delta/delta-max = 1.02: the (1, 1.1) clamp window of kappa; sites 9, 3


def world_names():
    return ["A", "D", "B"] if TIER[0] == "quick" else ["A", "A2", "B", "C", "D", "P"]
UA = {a: ("K" if a in "KRH" else ("S" if a in "ST" else "A")) for a in "ACDEFGHIKLMNPQRSTVWY"}
PALETTE = {a: "teal" for a in "ACDEFGHIKLMNPQRSTVWY"}
TIER = ["quick"]


def build(only=None):
    """The live world; with only=<name> just that object (used for the pristine single-object reference)."""
    from localcider.sequenceParameters import SequenceParameters as SP
    import localcider.sequenceParameters as M
    M.open = _MEMOPEN      # write_compfile writes into memory (part of the initial world, so not a state change)
    names = world_names()
    objs = {}
    for n in names:
        if only is not None and n != only:
            continue
        if n in ("A", "A2"):
            objs[n] = SP(SEQ_A)
        elif n == "D":
            objs[n] = SP(SEQ_D)
        elif n == "B":
            objs[n] = SP(SEQ_B)
        elif n == "C":
            objs[n] = SP(SEQ_C)
        else:
            objs[n] = SP("KEKEGSTYKE")
    for n in ("A", "A2"):
        if n in objs:
            objs[n].set_phosphosites([9, 1, 5])
    if "D" in objs:
        objs["D"].set_phosphosites([9, 3])
    if "P" in objs:
        objs["P"].set_HTMLColorResiduePalette(dict(PALETTE))
    return objs


def per_object_ops(n):
    g = lambda f: (lambda objs: f(objs[n]))   # noqa
    ops = [
        ("get_sequence", g(lambda o: o.get_sequence())),
        ("get_length", g(lambda o: o.get_length())),
        ("len", g(lambda o: len(o))),
        ("str", g(lambda o: str(o))),
        ("get_mean_hydropathy", g(lambda o: o.get_mean_hydropathy())),
        ("get_uversky_hydropathy", g(lambda o: o.get_uversky_hydropathy())),
        ("get_WW_hydropathy", g(lambda o: o.get_WW_hydropathy())),
        ("get_fraction_disorder_promoting", g(lambda o: o.get_fraction_disorder_promoting())),
        ("get_amino_acid_fractions", g(lambda o: o.get_amino_acid_fractions())),
        ("get_SCD", g(lambda o: o.get_SCD())),
        ("get_kappa", g(lambda o: o.get_kappa())),
        ("get_Omega", g(lambda o: o.get_Omega())),
        ("get_Omega_sequence", g(lambda o: o.get_Omega_sequence())),
        ("get_kappa_X(PEDKR)", g(lambda o: o.get_kappa_X(['P', 'E', 'D', 'K', 'R']))),
        ("get_kappa_X(ED,KR)", g(lambda o: o.get_kappa_X(['E', 'D'], ['K', 'R']))),
        ("get_deltaMax()", g(lambda o: o.get_deltaMax())),
        ("get_deltaMax(True)", g(lambda o: o.get_deltaMax(True))),
        ("get_deltaMax(1)", g(lambda o: o.get_deltaMax(1))),
        ("get_delta", g(lambda o: o.get_delta())),
        ("get_countPos", g(lambda o: o.get_countPos())),
        ("get_countNeg", g(lambda o: o.get_countNeg())),
        ("get_countNeut", g(lambda o: o.get_countNeut())),
        ("get_fraction_positive", g(lambda o: o.get_fraction_positive())),
        ("get_fraction_negative", g(lambda o: o.get_fraction_negative())),
        ("get_FCR()", g(lambda o: o.get_FCR())),
        ("get_FCR(pH=7)", g(lambda o: o.get_FCR(7.0))),
        ("get_fraction_expanding()", g(lambda o: o.get_fraction_expanding())),
        ("get_fraction_expanding(pH=5)", g(lambda o: o.get_fraction_expanding(5.0))),
        ("get_NCPR()", g(lambda o: o.get_NCPR())),
        ("get_NCPR(pH=3)", g(lambda o: o.get_NCPR(3.0))),
        ("get_mean_net_charge()", g(lambda o: o.get_mean_net_charge())),
        ("get_mean_net_charge(pH=9)", g(lambda o: o.get_mean_net_charge(9.0))),
        ("get_isoelectric_point", g(lambda o: o.get_isoelectric_point())),
        ("get_NCPR(pH=7)", g(lambda o: o.get_NCPR(7.0))),
        ("get_mean_net_charge(pH=3.5)", g(lambda o: o.get_mean_net_charge(3.5))),
        ("get_NCPR(pH=10.5)", g(lambda o: o.get_NCPR(10.5))),
        ("get_kappa_X(DEKR)", g(lambda o: o.get_kappa_X(['D', 'E', 'K', 'R']))),
        ("get_kappa_X(ED,KRP)", g(lambda o: o.get_kappa_X(['E', 'D'], ['K', 'R', 'P']))),
        ("get_kappa_X(W,C)", g(lambda o: o.get_kappa_X(['W'], ['C']))),        # both groups absent: the -1 flag
        ("get_kappa_X(W)", g(lambda o: o.get_kappa_X(['W']))),
        ("write_compfile", g(lambda o: _write_compfile(o))),
        ("get_molecular_weight", g(lambda o: o.get_molecular_weight())),
        ("get_phasePlotRegion", g(lambda o: o.get_phasePlotRegion())),
        ("get_phosphosites", g(lambda o: o.get_phosphosites())),
        ("get_kappa_after_phosphorylation", g(lambda o: o.get_kappa_after_phosphorylation())),
        ("get_all_phosphorylatable_sites", g(lambda o: o.get_all_phosphorylatable_sites())),
        ("get_full_phosphostatus_kappa_distribution", g(lambda o: o.get_full_phosphostatus_kappa_distribution())),
        ("get_phosphosequence", g(lambda o: o.get_phosphosequence())),
        ("get_PPII_propensity()", g(lambda o: o.get_PPII_propensity())),
        ("get_PPII_propensity(creamer)", g(lambda o: o.get_PPII_propensity("creamer"))),
        ("get_PPII_propensity(kallenbach)", g(lambda o: o.get_PPII_propensity("kallenbach"))),
        ("get_linear_sigma(5)", g(lambda o: o.get_linear_sigma(5))),
        ("get_linear_sigma(6)", g(lambda o: o.get_linear_sigma(6))),
        ("get_linear_NCPR()", g(lambda o: o.get_linear_NCPR())),
        ("get_linear_FCR(6)", g(lambda o: o.get_linear_FCR(6))),
        ("get_linear_hydropathy()", g(lambda o: o.get_linear_hydropathy())),
        ("get_linear_sequence_composition()", g(lambda o: o.get_linear_sequence_composition())),
        ("get_linear_sequence_composition(6,groups)", g(lambda o: o.get_linear_sequence_composition(6, [['K', 'R'], ['s', 't']]))),
        ("get_reduced_alphabet_sequence()", g(lambda o: o.get_reduced_alphabet_sequence())),
        ("get_reduced_alphabet_sequence(6)", g(lambda o: o.get_reduced_alphabet_sequence(6))),
        ("get_reduced_alphabet_sequence(user)", g(lambda o: o.get_reduced_alphabet_sequence(userAlphabet=dict(UA)))),
        ("get_linear_complexity()", g(lambda o: o.get_linear_complexity())),
        ("get_linear_complexity(LC,8,w=6)", g(lambda o: o.get_linear_complexity("LC", 8, blobLen=6, stepSize=2, wordSize=2))),
        ("get_linear_complexity(LZW,user)", g(lambda o: o.get_linear_complexity("LZW", userAlphabet=dict(UA), blobLen=5))),
        ("get_HTMLColorString", g(lambda o: o.get_HTMLColorString())),
    ]
    return [(n + "." + name, f) for name, f in ops]


class _MemOpen:
    def __call__(self, name, mode="r", *a, **k):
        import io
        return io.StringIO()


_MEMOPEN = _MemOpen()


def _write_compfile(o):
    """write_compfile is not a query, but it is a public call that must not alter the object either."""
    o.write_compfile("/mem/compfile")
    return None


def all_ops():
    names = world_names()
    ops = []
    for n in names:
        ops += per_object_ops(n)
    return ops


_INIT = {}


def invariant(objs, opname, r):
    """Stored sequence and phosphosite list never change."""
    out = []
    if not _INIT:
        return out
    for n, o in objs.items():
        cur = (o.SeqObj.seq, list(o.SeqObj.phosphosites))
        if cur != _INIT[n]:
            out.append(("object-changed:" + opname.split(".", 1)[1],
                        "%s changed object %s: (sequence, phosphosites) %r -> %r" % (opname, n, _INIT[n], cur)))
    return out


# ------------------------------------------------------------------------------------------------ phase 2: many inputs
def pair_inputs(tier):
    """Sequences chosen to collide on everything a too-coarse cache key could use: equal charge counts at different lengths,
    equal composition in different spellings, equal length with different composition, permutations, equal strings."""
    from ..refmodel import charge as R
    out = []
    Ls = (5, 6, 12, 20) if tier == "quick" else (5, 6, 7, 12, 20, 26, 40)
    for L in Ls:
        for (p, n) in ((2, 2), (4, 1), (1, 0), (0, 0), (0, 3)):
            if p + n > L:
                continue
            z = L - p - n
            blocks = "+" * p + "0" * z + "-" * n
            out.append(R.spell_base(blocks))
            out.append(R.spell_rotating(blocks[::-1], L))
            if p and n:
                out.append(R.spell_rotating("".join(sorted(blocks, key=lambda c: "+0-".index(c)))[::2] + "".join(sorted(blocks, key=lambda c: "+0-".index(c)))[1::2], 1))
    out += ["K", "P", "KE", "SSSSS", "KKKKKK", "EEEEEEEEEEEE", "ACDEFGHIKLMNPQRSTVWY", "WYVTSRQPNMLKIHGFEDCA"]
    # long, sparsely charged sequences of equal length (keys built from rounded fractions collide above ~100 residues)
    for L in ((150,) if tier == "quick" else (120, 150, 250)):
        bg = ("GSQNTA" * (L // 6 + 1))[:L]
        for ins in ("", "K", "KR", "D", "ED", "KE"):
            s_ = list(bg)
            for i, c in enumerate(ins):
                s_[L // 3 + 7 * i] = c
            out.append("".join(s_))
    seen = []
    for s_ in out:
        if s_ not in seen:
            seen.append(s_)
    return seen


def light_ops():
    return [
        ("get_kappa", lambda o: o.get_kappa()),
        ("get_delta", lambda o: o.get_delta()),
        ("get_deltaMax(True)", lambda o: o.get_deltaMax(True)),
        ("get_SCD", lambda o: o.get_SCD()),
        ("get_Omega", lambda o: o.get_Omega()),
        ("get_kappa_X(ED,KR)", lambda o: o.get_kappa_X(['E', 'D'], ['K', 'R'])),
        ("get_kappa_X(DEKR)", lambda o: o.get_kappa_X(['D', 'E', 'K', 'R'])),
        ("get_FCR", lambda o: o.get_FCR()),
        ("get_NCPR(pH=5)", lambda o: o.get_NCPR(5.0)),
        ("get_isoelectric_point", lambda o: o.get_isoelectric_point()),
        ("get_mean_hydropathy", lambda o: o.get_mean_hydropathy()),
        ("get_uversky_hydropathy", lambda o: o.get_uversky_hydropathy()),
        ("get_WW_hydropathy", lambda o: o.get_WW_hydropathy()),
        ("get_PPII_propensity(hilser)", lambda o: o.get_PPII_propensity("hilser")),
        ("get_PPII_propensity(creamer)", lambda o: o.get_PPII_propensity("creamer")),
        ("get_PPII_propensity(kallenbach)", lambda o: o.get_PPII_propensity("kallenbach")),
        ("get_molecular_weight", lambda o: o.get_molecular_weight()),
        ("get_phasePlotRegion", lambda o: o.get_phasePlotRegion()),
        ("get_amino_acid_fractions", lambda o: o.get_amino_acid_fractions()),
        ("get_fraction_disorder_promoting", lambda o: o.get_fraction_disorder_promoting()),
        ("get_reduced_alphabet_sequence(6)", lambda o: o.get_reduced_alphabet_sequence(6)),
        ("get_reduced_alphabet_sequence(user)", lambda o: o.get_reduced_alphabet_sequence(userAlphabet=dict(UA))),
        ("get_linear_complexity(WF,3,w=4)", lambda o: o.get_linear_complexity("WF", 3, blobLen=4)),
        ("get_linear_complexity(LZW,user,w=5)", lambda o: o.get_linear_complexity("LZW", userAlphabet=dict(UA), blobLen=5)),
        ("get_linear_NCPR(5)", lambda o: o.get_linear_NCPR(5)),
        ("get_linear_sigma(5)", lambda o: o.get_linear_sigma(5)),
        ("get_linear_hydropathy(3)", lambda o: o.get_linear_hydropathy(3)),
        ("get_linear_sequence_composition()", lambda o: o.get_linear_sequence_composition()),
        ("get_all_phosphorylatable_sites", lambda o: o.get_all_phosphorylatable_sites()),
        ("get_HTMLColorString", lambda o: o.get_HTMLColorString()),
    ]


def light_vec(seq):
    from localcider.sequenceParameters import SequenceParameters as SP
    from ..apivec import norm
    with core.quiet():
        o = SP(seq)
        out = []
        for name, f in light_ops():
            try:
                out.append((name, norm(f(o))))
            except Exception as e:  # noqa
                out.append((name, ("EXC", type(e).__name__)))
        if o.get_sequence() != seq or o.get_phosphosites() != []:
            out.append(("object-state", (o.get_sequence(), tuple(o.get_phosphosites()))))
    return out


def task_solo(seq):
    H.fresh_world()
    return seq, light_vec(seq)


def first_diff(a, b):
    for (n1, v1), (n2, v2) in zip(a, b):
        if n1 != n2 or v1 != v2:
            return n1, v1, v2
    if len(a) != len(b):
        return "object-state", None, None
    return None


def run_history(seqs):
    H.fresh_world()
    return [light_vec(s_) for s_ in seqs]


def task_pairs(args):
    """History: all analyses of `first`, then of every other input in turn; each must equal its solo result."""
    first, others, solo = args
    acc = core.Acc()
    vecs = run_history([first] + others)
    acc.states += 1
    acc.traces += 1
    for k, b in enumerate(others):
        acc.transitions += len(solo[b])
        acc.evaluations += 1
        d = first_diff(vecs[k + 1], solo[b])
        if d:
            # minimise (first two failures only): does (first, b) alone reproduce it? does some recent (b_j, b) ?
            hist = None
            nmin = acc.extra.get("minimised", 0)
            acc.extra["minimised"] = nmin + 1
            for cand in ([[first]] + [[x] for x in others[max(0, k - 4):k]] if nmin < 2 else []):
                r = run_history(cand + [b])
                if first_diff(r[-1], solo[b]):
                    hist = cand
                    break
            if hist is None:
                hist = [first] + others[:k]
            acc.viol("depends-on-other-objects:" + d[0],
                     "after analysing %r, %s on a fresh object for %s returned %r; alone in a pristine world it returns %r"
                     % (hist, d[0], b, _short(d[1]), _short(d[2])),
                     {"kind": "pairs", "history": hist, "seq": b, "op": d[0]})
    return acc


_EXP = {}


def _expander():
    if "e" not in _EXP:
        _EXP["e"] = H.Expander(build, all_ops(), invariant)
        H.fresh_world()
        with core.quiet():
            o = build()
        for n, x in o.items():
            _INIT[n] = (x.SeqObj.seq, list(x.SeqObj.phosphosites))
    return _EXP["e"]


def task_ref(i):
    """Pristine result of op i: first and only call, in a fresh world in which ONLY its own object exists."""
    e = _expander()
    H.fresh_world()
    with core.quiet():
        objs = build(only=e.ops[i][0].split(".", 1)[0])
    return i, H.run_op(e.ops[i], objs)


def task_pairs_same_object(i):
    """Depth-2 exhaustively, independent of state merging: op i first, then every op of the same object in turn."""
    e = _expander()
    acc = core.Acc()
    names = [o[0] for o in e.ops]
    obj = names[i].split(".", 1)[0]
    js = [j for j, n in enumerate(names) if n.split(".", 1)[0] == obj]
    ref = _REF["ref"]
    objs = e.rebuild([i])
    acc.states += 1
    acc.traces += 1
    nmin = 0
    for j in js:
        r = H.run_op(e.ops[j], objs)
        acc.transitions += 1
        acc.evaluations += 1
        if r != ref[j]:
            hist = [i] + js[:js.index(j)]
            if nmin < 2:
                nmin += 1
                o2 = e.rebuild([i])
                if H.run_op(e.ops[j], o2) != ref[j]:
                    hist = [i]
            acc.viol("history-dependent:" + names[j].split(".", 1)[1],
                     "after %r, %s returned %r; as the first call on a fresh object it returns %r"
                     % ([names[h] for h in hist], names[j], _short(r), _short(ref[j])),
                     {"tier": TIER[0], "history": [names[h] for h in hist], "op": names[j]})
        for (k, w) in invariant(objs, names[j], r):
            acc.viol(k, w, {"tier": TIER[0], "history": [names[i]], "op": names[j]})
    return acc


# ------------------------------------------------------------------------------------------------ phase 3: other API areas
def context_calls():
    """Public calls from OTHER areas of the API (plots, permutations, files, setters on other objects, a Wang-Landau run).
    Their own results are not judged here; every read-only query made AFTERWARDS must still answer as on a fresh object."""
    def plots_off():
        import matplotlib.pyplot as plt
        plt.close("all")

    def wl_run(objs):
        from . import c18
        from ..engines import choice as C
        c18.mods()
        cfg = dict(name="ctx", seq="KKEEGG", nbins=2, binmin=0, binmax=1, flatchk=3, flatcrit=0.3, conv=2.0)
        t = C.Tape((), 7, 300, None, 0)
        C.ScriptedRandom.tape = t
        try:
            c18.Run(cfg)(t)
        finally:
            C.ScriptedRandom.tape = None

    def from_file(objs):
        import io
        import localcider.backend.seqfileparser as P
        from localcider.sequenceParameters import SequenceParameters as SP
        from localcider.sequencePermutants import SequencePermutants
        P.open = lambda *a, **k: io.StringIO(">x\n1 SKEKTG KEYEKE 12\n*\n")
        try:
            SP(sequenceFile="mem").get_kappa()
            SequencePermutants(sequenceFile="mem").get_permutant().get_kappa()
        finally:
            del P.open

    def other_object(objs):
        from localcider.sequenceParameters import SequenceParameters as SP
        x = SP(SEQ_A)
        x.set_phosphosites([5, 1, 9])
        x.get_full_phosphostatus_kappa_distribution()
        x.clear_phosphosites()
        x.set_HTMLColorResiduePalette(dict(PALETTE))
        x.get_HTMLColorString()
        y = SP(SEQ_B)
        y.get_kappa()
        y.get_deltaMax(True)

    def derived_then_set(objs):
        # objects DERIVED from the live ones (shuffles with nothing / one residue left to move, a swap of a position with itself,
        # a second wrapper around a copy) and then changed through their own setters: the originals must not notice
        for o in list(objs.values()):
            n = len(o.get_sequence())
            kids = []
            for fz in (set(range(n)), set(range(1, n)), list(range(n + 3)), set()):
                try:
                    kids.append(o.get_shuffled_sequence(fz))
                except Exception:  # noqa
                    pass
            try:
                from localcider.sequenceParameters import SequenceParameters as SP
                kids.append(SP(SeqObj=o.SeqObj.swapRes(0, 0)))
                kids.append(SP(SeqObj=o.SeqObj.full_shuffle(set(range(n)))))
            except Exception:  # noqa
                pass
            for kid in kids:
                try:
                    kid.clear_phosphosites()
                    kid.set_phosphosites(list(range(1, n + 1)))
                    kid.set_HTMLColorResiduePalette({a: "olive" for a in "ACDEFGHIKLMNPQRSTVWY"})
                    kid.get_kappa_after_phosphorylation()
                    kid.get_deltaMax(True)
                except Exception:  # noqa
                    pass

    def moves(objs):
        so = objs["A"].SeqObj
        so.swapRes(0, 3)
        so.full_shuffle(set([1]))
        so.swapRandChargeRes(set())
        objs["A"].get_shuffled_sequence([0, 2])
        from localcider.sequencePermutants import SequencePermutants
        SequencePermutants(SEQ_A).get_permutant().get_kappa()
        try:
            so.permute_block_swap()
            so.permute_cluster_charges()
        except Exception:  # noqa
            pass

    def save_plots(objs):
        import matplotlib.pyplot as plt
        orig = plt.savefig
        plt.savefig = lambda *a, **k: None
        try:
            o = objs["A"]
            o.save_phaseDiagramPlot("/nonexistent/a.png")
            o.save_uverskyPlot("/nonexistent/b.png", label="x")
            o.save_linearNCPR("/nonexistent/c.png")
            o.save_linearHydropathy("/nonexistent/d.png", 3)
            o.save_linearComplexity("/nonexistent/e.png", "LZW", blobLen=5)
            try:
                o.save_linearComposition("/nonexistent/f.png")
            except Exception:  # noqa
                pass
        finally:
            plt.savefig = orig
            plt.close("all")

    def show_plots(objs):
        from localcider import plots
        o = objs["A"]
        o.show_phaseDiagramPlot(getFig=True)
        plots_off()
        o.show_uverskyPlot(getFig=True)
        plots_off()
        for f in (o.show_linearNCPR, o.show_linearFCR, o.show_linearSigma, o.show_linearHydropathy):
            f(5, getFig=True)
            plots_off()
        o.show_linearComplexity("WF", blobLen=6, getFig=True)
        plots_off()
        plots.show_multiple_phasePlot2([objs["A"], objs["B"]], getFig=True)
        plots_off()
        plots.show_multiple_uverskyPlot2([objs["B"], objs["A"]], ["b", "a"], getFig=True)
        plots_off()

    def rejected_calls(objs):
        o = objs["A"]
        for f in (lambda: o.get_linear_NCPR(99), lambda: o.get_NCPR(15.0), lambda: o.get_linear_complexity("XX"),
                  lambda: o.get_reduced_alphabet_sequence(7), lambda: o.get_kappa_X(["X"]), lambda: o.set_HTMLColorResiduePalette({}),
                  lambda: o.get_reduced_alphabet_sequence(userAlphabet={"A": "A"}), lambda: o.get_PPII_propensity("nobody")):
            try:
                f()
            except Exception:  # noqa
                pass
    def reload_modules(objs, which="all"):
        # the package's modules re-executed while objects made from the earlier copies are alive (importlib.reload, IPython autoreload);
        # a single module alone, or all of them in one of two orders
        import importlib
        import localcider.backend.sequence as m1
        import localcider.backend.restable as m2
        import localcider.backend.sequenceComplexity as m3
        import localcider.backend.data.aminoacids as m4
        import localcider.backend.backendtools as m5
        import localcider.backend.plotting as m6
        order = {"all": (m4, m2, m3, m1), "all-reversed": (m1, m3, m2, m4, m5), "sequenceComplexity": (m3,), "sequence": (m1,),
                 "plotting+backendtools": (m6, m5), "restable": (m2,)}[which]
        for m in order:
            importlib.reload(m)
        # ... and the session simply goes on: new objects, objects derived from old ones, wrappers around old and new backend
        # objects, linear plots of both (whatever works in a fresh session works after a reload)
        bad = []
        from localcider.sequenceParameters import SequenceParameters as SP
        import localcider.backend.sequence as S2
        import matplotlib.pyplot as plt
        old = objs["A"]
        steps = [("a shuffle of an object made before the reload", lambda: old.get_shuffled_sequence().get_sequence()),
                 ("SequenceParameters(SeqObj=<backend object of the reloaded class>)", lambda: SP(SeqObj=S2.Sequence(SEQ_A)).get_kappa()),
                 ("SequenceParameters(SeqObj=<old backend object>)", lambda: SP(SeqObj=old.SeqObj).get_FCR()),
                 ("a new object's delta-max permutant", lambda: SP(SEQ_D).get_deltaMax(True)),
                 ("a new object's delta", lambda: SP(SEQ_A).get_delta()),
                 ("a new object's reduced alphabet", lambda: SP(SEQ_A).get_reduced_alphabet_sequence(4)),
                 ("reduced alphabets of old and new objects agree with the documented size",
                  lambda: [len(set(x.get_reduced_alphabet_sequence(2)[0])) <= 2 or (_ for _ in ()).throw(AssertionError("size-2 reduction has more than two letters"))
                           for x in (old, SP(SEQ_A))]),
                 ("a linear plot of an old object", lambda: old.show_linearNCPR(5, getFig=True)),
                 ("a linear plot of a shuffle", lambda: old.get_shuffled_sequence([0]).show_linearHydropathy(5, getFig=True)),
                 ("a linear plot of a new object", lambda: SP(SEQ_A).show_linearFCR(5, getFig=True)),
                 ("a diagram of states of a new object", lambda: SP(SEQ_A).show_phaseDiagramPlot(getFig=True))]
        for what, f in steps:
            try:
                with core.quiet():
                    f()
            except Exception as e:  # noqa
                bad.append(("fails-after-module-reload", "after importlib.reload of the backend modules, %s raised %r" % (what, e)))
            finally:
                plt.close("all")
        return bad

    def degenerate_calls(objs):
        # calls that are accepted but take a shortcut / early return (absent groups, full-length windows, boundary pH, empty lists)
        for o in objs.values():
            n = len(o.get_sequence())
            for f in (lambda: o.get_kappa_X(["W"], ["C"]), lambda: o.get_kappa_X(["C"], ["W", "M"]), lambda: o.get_kappa_X(["W"]),
                      lambda: o.get_linear_NCPR(n), lambda: o.get_linear_sigma(n), lambda: o.get_linear_hydropathy(n),
                      lambda: o.get_linear_complexity(blobLen=n), lambda: o.get_linear_sequence_composition(n),
                      lambda: o.get_FCR(0), lambda: o.get_NCPR(14), lambda: o.get_mean_net_charge(0.0), lambda: o.get_fraction_expanding(14.0),
                      lambda: o.get_PPII_propensity("Creamer"), lambda: o.get_PPII_propensity(mode="KALLENBACH"),
                      lambda: o.get_reduced_alphabet_sequence(20), lambda: o.get_reduced_alphabet_sequence("2"),
                      lambda: o.get_linear_complexity("lzw", 2, blobLen=n, stepSize=n)):
                try:
                    f()
                except Exception:  # noqa
                    pass
    return [("interpreter-state: numpy errors raise, warnings are errors, stdout is ASCII-only", None), ("backend modules reloaded", reload_modules),
            ("backend modules reloaded in reverse order", lambda objs: reload_modules(objs, "all-reversed")),
            ("only backend.sequenceComplexity reloaded", lambda objs: reload_modules(objs, "sequenceComplexity")),
            ("only backend.sequence reloaded", lambda objs: reload_modules(objs, "sequence")),
            ("only backend.restable reloaded", lambda objs: reload_modules(objs, "restable")),
            ("backend.plotting and backendtools reloaded", lambda objs: reload_modules(objs, "plotting+backendtools")),
            ("degenerate-arguments", degenerate_calls), ("setters-on-derived-objects", derived_then_set), ("show-plots", show_plots), ("save-plots", save_plots), ("moves-and-permutants", moves), ("sequence-file", from_file),
            ("setters-on-other-objects", other_object), ("wang-landau-run", wl_run), ("rejected-calls", rejected_calls)]


def task_context(k):
    e = _expander()
    acc = core.Acc()
    names = [o[0] for o in e.ops]
    ref = _REF["ref"]
    cname, cfun = context_calls()[k]
    objs = e.rebuild([])
    err = None
    import contextlib
    import warnings
    import numpy as _np
    stack = contextlib.ExitStack()
    if cfun is None:
        # not a call but a state of the interpreter in which every query is then made
        old_err = _np.geterr()
        stack.callback(lambda: _np.seterr(**old_err))
        stack.enter_context(warnings.catch_warnings())
        warnings.simplefilter("error")
        warnings.filterwarnings("ignore", category=SyntaxWarning)   # compile-time warnings of a (re)import are not part of the call
        _np.seterr(all="raise")
        import io as _io
        import sys as _sys
        old_out = _sys.stdout
        stack.callback(lambda: setattr(_sys, "stdout", old_out))
        _sys.stdout = _io.TextIOWrapper(_io.BytesIO(), encoding="ascii", errors="strict", write_through=True)
        H.NOQUIET[0] = True
        stack.callback(lambda: H.NOQUIET.__setitem__(0, False))
    else:
        try:
            with core.quiet():
                ret = cfun(objs)
            for kk, w in (ret or []):
                acc.viol(kk, w, {"kind": "context", "tier": TIER[0], "context": cname, "op": names[0]})
        except BaseException as ex:  # noqa
            err = repr(ex)
    acc.states += 1
    acc.traces += 1
    acc.extra["context_errors"] = [] if err is None else ["%s: %s" % (cname, err)]
    with stack:
      for j, op in enumerate(e.ops):
        r = H.run_op(op, objs)
        acc.transitions += 1
        acc.evaluations += 1
        if r != ref[j]:
            acc.viol("depends-on-other-api-calls:" + names[j].split(".", 1)[1],
                     "after the context calls '%s', %s returned %r; as the first call on a fresh object it returns %r"
                     % (cname, names[j], _short(r), _short(ref[j])),
                     {"kind": "context", "tier": TIER[0], "context": cname, "op": names[j]})
            break
        for (kk, w) in invariant(objs, names[j], r):
            acc.viol(kk, w, {"kind": "context", "tier": TIER[0], "context": cname, "op": names[j]})
    return acc


_REF = {}


def _set_ref(ref):
    _REF["ref"] = ref


def task_expand(args):
    hist, expected = args
    return hist, _expander().expand(hist, expected)


def replay(case):
    if case.get("kind") == "context":
        TIER[0] = case.get("tier", "quick")
        _EXP.clear()
        e = _expander()
        names = [o[0] for o in e.ops]
        j = names.index(case["op"])
        H.fresh_world()
        with core.quiet():
            ref = H.run_op(e.ops[j], build(only=case["op"].split(".", 1)[0]))
        k = [c[0] for c in context_calls()].index(case["context"])
        objs = e.rebuild([])
        cf = context_calls()[k][1]
        if cf is None:
            import warnings
            import numpy as _np
            old_err = _np.geterr()
            with warnings.catch_warnings():
                warnings.simplefilter("error")
                warnings.filterwarnings("ignore", category=SyntaxWarning)   # compile-time warnings of a (re)import are not part of the call
                _np.seterr(all="raise")
                try:
                    got = H.run_op(e.ops[j], objs)
                finally:
                    _np.seterr(**old_err)
        else:
            try:
                with core.quiet():
                    cf(objs)
            except BaseException:  # noqa
                pass
            got = H.run_op(e.ops[j], objs)
        if got != ref:
            return [{"key": "depends-on-other-api-calls:" + case["op"].split(".", 1)[1],
                     "what": "after '%s', %s returned %r, fresh %r" % (case["context"], case["op"], _short(got), _short(ref)), "case": case}]
        return []
    if case.get("kind") == "statecap":
        return [{"key": "state-space-does-not-close", "what": "re-run ./check C15 to reproduce", "case": case}]
    if case.get("kind") == "pairs":
        solo = task_solo(case["seq"])[1]
        r = run_history(list(case["history"]) + [case["seq"]])
        d = first_diff(r[-1], solo)
        if d:
            return [{"key": "depends-on-other-objects:" + d[0], "what": "after %r, %s for %s returned %r, alone %r"
                     % (case["history"], d[0], case["seq"], _short(d[1]), _short(d[2])), "case": case}]
        return []
    TIER[0] = case.get("tier", "quick")
    _EXP.clear()
    e = _expander()
    names = [o[0] for o in e.ops]
    hist = [names.index(n) for n in case["history"]]
    i = names.index(case["op"])
    H.fresh_world()
    with core.quiet():
        ref = H.run_op(e.ops[i], build(only=case["op"].split(".", 1)[0]))
    objs = e.rebuild(hist)
    got = H.run_op(e.ops[i], objs)
    out = []
    if got != ref:
        out.append({"key": "history-dependent:" + case["op"].split(".", 1)[1],
                    "what": "after %r, %s returned %r; as first call on a fresh object it returns %r" % (case["history"], case["op"], got, ref),
                    "case": case})
    for k, w in invariant(objs, case["op"], got):
        out.append({"key": k, "what": w, "case": case})
    return out


def run(tier, seed, t0):
    TIER[0] = tier
    _EXP.clear()
    ops = all_ops()
    names = [o[0] for o in ops]
    max_alt = 1 if tier == "quick" else 2
    acc = core.Acc()
    ctx = mp.get_context("fork")
    with ctx.Pool(core.NPROC) as pool:
        ref = dict(pool.imap_unordered(task_ref, range(len(ops)), 4))
    _REF["ref"] = ref
    with ctx.Pool(core.NPROC) as pool:      # new pool: workers inherit the reference table
        for a1 in pool.imap_unordered(task_pairs_same_object, range(len(ops)), 2):
            acc.merge(a1)
        acc.extra["same_object_pair_histories"] = len(ops)
        for a3 in pool.imap_unordered(task_context, range(len(context_calls())), 1):
            acc.merge(a3)
        acc.extra["context_histories"] = len(context_calls())
        reps = {}          # digest -> representative history
        steps_of = {}      # digest -> {op: (result, next digest)}
        alts = {}          # digest -> number of alternative histories validated
        frontier = [([], None)]
        first = True
        depth = 0
        cap = 200 if tier == "quick" else 4000
        while frontier:
            if len(reps) > cap:
                # a state space that does not close (e.g. a cache that grows with every call) - stop expanding, say so
                # not a violation (caching is allowed to be invisible): the run is reported as capped / not exhaustive
                acc.capped += 1
                acc.extra["state_cap_hit"] = len(reps)
                break
            results = pool.map(task_expand, frontier, 1)
            nxt = []
            for hist, res in results:
                hn = [names[i] for i in hist]
                if res["divergence"]:
                    acc.extra.setdefault("harness_errors", []).append("replay divergence: " + res["divergence"])
                    continue
                d0 = res["digest"]
                is_alt = d0 in reps and reps[d0] != hist
                if not is_alt:
                    reps.setdefault(d0, hist)
                    acc.states += 1
                    if len(hist) > 0:
                        acc.nontrivial += 1
                    acc.extra["max_depth"] = max(acc.extra.get("max_depth", 0), len(hist))
                else:
                    acc.bump("merge_checks")
                acc.traces += 1
                for (i, k, w) in res["extra"]:
                    acc.viol(k, w, {"tier": tier, "history": hn, "op": names[i]})
                mine = {}
                for i, r, d1, changed in res["steps"]:
                    acc.transitions += 1
                    acc.evaluations += 1
                    mine[i] = (r, d1)
                    acc.out((i, repr(r)[:80]))
                    if r != ref[i]:
                        acc.viol("history-dependent:" + names[i].split(".", 1)[1],
                                 "after %r, %s returned %r; as the first call on a fresh object it returns %r"
                                 % (hn, names[i], _short(r), _short(ref[i])),
                                 {"tier": tier, "history": hn, "op": names[i], "expected": ref[i], "observed": r})
                    if is_alt:
                        r0, dn0 = steps_of[d0][i]
                        if r0 != r or dn0 != d1:
                            acc.viol("merged-states-differ", "histories %r and %r reach the same canonical state but %s behaves "
                                     "differently afterwards" % ([names[j] for j in reps[d0]], hn, names[i]),
                                     {"tier": tier, "history": hn, "op": names[i]})
                    if d1 != d0:
                        h2 = hist + [i]
                        if d1 not in reps:
                            reps[d1] = h2
                            nxt.append((h2, d1))
                            acc.sample({"history": [names[j] for j in h2], "state_changes": list(changed)}, cap=8)
                        elif alts.get(d1, 0) < max_alt and reps[d1] != h2:
                            alts[d1] = alts.get(d1, 0) + 1
                            nxt.append((h2, d1))
                if not is_alt:
                    steps_of[d0] = mine
            frontier = nxt
            depth += 1
            if depth > 40:
                acc.extra.setdefault("harness_errors", []).append("no fixpoint after 40 levels")
                break
        # ---- phase 2: two-object histories over many inputs (caches shared between objects, keyed on too little)
        inputs = pair_inputs(tier)
        solo = dict(pool.imap_unordered(task_solo, inputs, 1))
        tasks = []
        shorts = [x for x in inputs if len(x) <= 60]
        longs = [x for x in inputs if len(x) > 60]
        for group in (shorts, longs):      # long inputs only meet long inputs (cost), short ones only short ones
            for i, a in enumerate(group):
                others = group[i + 1:] + group[:i]
                others = others if i % 2 == 0 else list(reversed(others))
                tasks.append((a, others + [a], solo))
        for a2 in pool.imap_unordered(task_pairs, tasks, 1):
            acc.merge(a2)
        acc.extra["pair_inputs"] = len(inputs)
        acc.extra["pair_histories"] = len(tasks)
    acc.extra["ops"] = len(ops)
    acc.extra["fixpoint_levels"] = depth
    return core.finish(
        PROP, tier, seed, acc, t0,
        rule="world = live objects %s; alphabet = %d read-only calls (%d per object, incl. get_deltaMax with/without permutant, "
             "pH variants, windows 5/6, default and explicit groups, three complexity types, default and user alphabets, len, str, "
             "HTML string); BFS over call histories: state = canonical serialisation of every live object's attributes + defaults/"
             "attributes/closures of every localcider function + every module global and class attribute + numpy/matplotlib global "
             "settings; a history is expanded only if its state is new, search runs to the fixpoint (no depth bound); oracle: every "
             "result must be bit-identical to the same call made first on a fresh object that is ALONE in a pristine world, stored sequence and "
             "phosphosites unchanged; merge validation: up to %d alternative histories per state are expanded too and must agree "
             "on every result and successor state. Phase 1b (independent of state merging): for every call i, a fresh world runs i and "
             "then every call of the same object in turn (all ordered same-object pairs). Phase 3: after each of 9 groups of calls, and with every query made while numpy errors raise and warnings are errors, (incl. setters used on objects derived from the live ones by shuffles with nothing left to move) (incl. accepted-but-degenerate arguments: absent kappa_X groups, full-length windows, boundary pH) from "
             "other API areas (show plots, save plots, moves and permutants, reading a sequence file, setters on other objects, a "
             "Wang-Landau run, rejected calls) every read-only call must still answer as on a fresh object. Phase 2: %d inputs chosen to collide on coarse cache keys (equal charge counts at "
             "different lengths, equal composition in different spellings, permutations, equal strings): for every input a, a fresh "
             "world analyses a with 30 calls and then every other input (and a again on a new object) in turn; each result must "
             "equal the input's solo result in a pristine world (every ordered pair occurs; a failure is minimised to a pair where "
             "possible). non-trivial = states other than the initial one; transitions = (state, call) pairs executed" % (world_names(), len(ops), len(ops) // len(world_names()), max_alt, len(pair_inputs(tier))),
        bounds={"objects": len(world_names()), "ops": len(ops), "depth": "fixpoint", "merge_validation_per_state": max_alt},
        assumptions=["state outside the canonical serialisation (third-party private state) is assumed irrelevant; merge validation "
                     "would reveal a dependence on it"])


def _short(r):
    s = repr(r)
    return s if len(s) < 160 else s[:157] + "..."
