"""C03 - delta-max is composition-only, attained by a returned permutant, and equals the documented search."""
from .. import core, spaces
from ..refmodel import charge as R

PROP = "C03"
TOL = 1e-12


def presentations(p, n, z, full):
    blocks = "+" * p + "-" * n + "0" * z
    out = [("blocks", blocks)]
    if not full:
        return out + [("reversed", blocks[::-1])]
    # perfectly interleaved: round-robin over the three classes
    rem = {"+": p, "-": n, "0": z}
    inter = []
    while sum(rem.values()):
        for c in "+0-":
            if rem[c]:
                inter.append(c)
                rem[c] -= 1
    inter = "".join(inter)
    N = len(blocks)
    out += [("reversed", blocks[::-1]), ("interleaved", inter),
            ("rot1", blocks[N // 3:] + blocks[:N // 3]), ("rot2", inter[N // 2:] + inter[:N // 2])]
    seen = set()
    res = []
    for name, pat in out:
        if pat not in seen:
            seen.add(pat)
            res.append((name, pat))
    return res


def check_seq(seq, comp, want_perm, case):
    """One presentation: value against the documented family; optionally the returned permutant."""
    from localcider.sequenceParameters import SequenceParameters as SP
    out = []
    ncalls = 0

    def v(key, what, **kw):
        out.append({"key": key, "what": what, "case": dict(case, **kw)})
    refs = R.dmax_ref(*comp)
    try:
        m = core.sp(seq).get_deltaMax()
        ncalls += 1
    except Exception as e:  # noqa
        v("exception", "get_deltaMax() raised %r for %s" % (e, seq))
        return out, ncalls, None
    if not any(abs(float(m) - float(r)) <= TOL for r in refs):
        v("dmax-not-documented-max",
          "%s (comp %s): get_deltaMax()=%r but documented family maximum is %s" % (seq, comp, m, [float(r) for r in refs]),
          observed=m, expected=[float(r) for r in refs])
    if want_perm:
        try:
            import numpy as _np
            flag = (True, 1, _np.True_)[(len(seq) + comp[0]) % 3]
            if (len(seq) + comp[1]) % 2:
                res = SP(seq).get_deltaMax(flag)
                ncalls += 1
            else:
                o_ = SP(seq)
                o_.get_deltaMax()                  # value cached first, permutant asked afterwards on the same object
                res = o_.get_deltaMax(flag)
                ncalls += 2
        except Exception as e:  # noqa
            v("exception", "get_deltaMax(True) raised %r for %s" % (e, seq))
            return out, ncalls, m
        ok_shape = isinstance(res, tuple) and len(res) == 2
        if not ok_shape:
            v("perm-shape", "%s: get_deltaMax(True) returned %r" % (seq, res))
            return out, ncalls, m
        val, s = res
        if val != m:
            v("perm-value", "%s: get_deltaMax(True) value %r != get_deltaMax() %r" % (seq, val, m))
        if not isinstance(s, str):
            key = "perm-missing-uncharged" if comp[0] + comp[1] == 0 else "perm-missing"
            v(key, "%s: get_deltaMax(True) returned no permutant: %r" % (seq, res))
        else:
            if sorted(s) != sorted(seq):
                v("perm-not-rearrangement", "%s: permutant %s is not a rearrangement of the input" % (seq, s), permutant=s)
            else:
                try:
                    d = SP(s).get_delta()
                    ncalls += 1
                    if not abs(d - val) <= TOL:
                        v("perm-delta", "%s: permutant %s has delta %r, not the returned delta-max %r" % (seq, s, d, val),
                          permutant=s)
                except Exception as e:  # noqa
                    v("exception", "get_delta() on permutant %r raised %r" % (s, e))
    return out, ncalls, m


def check_case(case):
    comp = tuple(case["comp"])
    if case["kind"] == "presentations":
        out = []
        calls = 0
        vals = []
        pres = presentations(*comp, full=case["full"])
        if case.get("lattice"):          # one presentation (alternating which); permutant asked for every third composition
            pres = pres[sum(comp) % 2:][:1]
        for pi, (name, pat) in enumerate(pres):
            # a different spelling per presentation: same composition, different residue multisets, so a permutant
            # remembered from another object cannot pass as a rearrangement of this one
            seq = R.spell_base(pat) if pi == 2 else R.spell_rotating(pat, case.get("k", 0) + 3 * pi)
            v, c, m = check_seq(seq, comp, not case.get("lattice") or sum(comp) % 3 == 0, dict(case, presentation=name, seq=seq))
            out += v
            calls += c
            vals.append((seq, m))
        ms = [m for _, m in vals if m is not None]
        if ms and max(ms) - min(ms) > TOL:
            out.append({"key": "not-composition-only", "what": "comp %s: delta-max differs between presentations %r" % (comp, vals),
                        "case": case})
        return out, calls, (ms[0] if ms else None)
    else:  # all arrangements of a small composition
        out = []
        calls = 0
        vals = {}
        for pat in R.arrangements(*comp):
            seq = R.spell_rotating(pat, 0)
            v, c, m = check_seq(seq, comp, False, dict(case, seq=seq))
            out += v
            calls += c
            vals[seq] = m
        ms = [m for m in vals.values() if m is not None]
        if ms and max(ms) - min(ms) > TOL:
            out.append({"key": "not-composition-only", "what": "comp %s: delta-max differs between arrangements" % (comp,),
                        "case": case})
        return out, calls, (ms[0] if ms else None)


def shard(s):
    acc = core.Acc()
    for case in s:
        with core.istate("%r%s" % (case["comp"], case["kind"])):
            v, calls, m = check_case(case)
        acc.states += 1
        acc.traces += 1
        acc.transitions += calls
        acc.evaluations += 1
        for x in v:
            acc.viol(x["key"], x["what"], x["case"])
        comp = case["comp"]
        if comp[0] and comp[1] and comp[2]:
            acc.nontrivial += 1
        if m is not None:
            acc.out(round(m, 10))
        if comp[2] in (17, 18):
            acc.bump("neutral_17_18_boundary")
        if sum(comp) >= 12:
            acc.sample({"comp": comp, "kind": case["kind"], "deltaMax": m}, cap=1)
    return acc


def cost(c):
    p, n, z = c
    N = p + n + z
    if p and n and z and z < 18:
        return (z + 1) * (z + 2) / 2 * N
    return 50 * N


def run(tier, seed, t0):
    if tier == "quick":
        NK, NF, NA = 24, 24, 7
    else:
        NK, NF, NA = 45, 24, 8
    cases = []
    for c in R.compositions(NK):
        cases.append({"kind": "presentations", "comp": c, "full": sum(c) <= NF, "k": sum(c) % 3})
    for c in R.compositions(NA):
        cases.append({"kind": "arrangements", "comp": c})
    # the >=18-neutral regime beyond K: every composition with n0 >= 18 up to total NZ; thorough: up to 80 with minority <= 6
    NZ = 32 if tier == "quick" else 50
    extra = set()
    for N in range(NK + 1, NZ + 1):
        for z in range(18, N - 1):
            for p in range(1, N - z):
                extra.add((p, N - z - p, z))
    if tier == "thorough":
        for N in range(NZ + 1, 81):
            for z in range(18, N - 1):
                for m in range(1, 7):
                    if N - z - m >= m:
                        extra.add((m, N - z - m, z))
                        extra.add((N - z - m, m, z))
    # regime intersections and lopsided compositions beyond K (the order in which the four searches are tried matters only here):
    #  (a) one charge type AND >=18 neutrals; (b) no neutrals, minority 1..8 against a majority up to MJ;
    #  (c) few neutrals (1 / 17: both ends of the exhaustive-search regime) with a small minority
    MJ = 48 if tier == "quick" else 96
    lat = set()
    for k in range(1, MJ + 1):
        for z in ([18, 19, 22, 27, 36] if tier == "quick" else list(range(18, 28)) + [30, 36, 45, 60, 90]):
            lat.add((k, 0, z))
            lat.add((0, k, z))
    for m in range(1, 9):
        for M in range(max(m, NK - m + 1), MJ + 1):
            lat.add((m, M, 0))
            lat.add((M, m, 0))
    for z in ((1, 17) if tier == "quick" else (1, 2, 5, 11, 17)):
        for m in ((1, 2, 5) if tier == "quick" else (1, 2, 3, 5, 8)):
            for M in range(25, 41 if tier == "quick" else 61):
                lat.add((m, M, z))
                lat.add((M, m, z))
    # counts beyond 256 residues of a class, one composition per search regime (small-integer identity, int8/uint8 counters)
    big = [(300, 0, 2), (0, 257, 17), (258, 0, 18), (0, 300, 40), (260, 30, 0), (30, 257, 0), (300, 10, 2), (5, 280, 17), (270, 8, 20), (3, 3, 300),
           (80, 600, 0), (140, 0, 600)]       # slides of 600 positions (size guards / subsampled searches)
    if tier == "thorough":
        big += [(513, 0, 3), (0, 1025, 5), (520, 520, 0), (600, 20, 4), (20, 600, 30), (300, 300, 3), (0, 700, 90), (650, 75, 0), (1000, 130, 0)]
    for c in big:
        lat.add(c)
    for c in sorted(extra):
        cases.append({"kind": "presentations", "comp": c, "full": False, "k": sum(c) % 3})
    for c in sorted(lat - extra):
        if sum(c) > NK:
            cases.append({"kind": "presentations", "comp": c, "full": False, "k": sum(c) % 3, "lattice": True})
    cases.sort(key=lambda x: -cost(x["comp"]))
    nsh = 16 * 12
    shards = [cases[i::nsh] for i in range(nsh)]
    acc = core.pmap(shard, [s for s in shards if s])
    return core.finish(
        PROP, tier, seed, acc, t0,
        rule="state = one composition (n+,n-,n0): every composition of total 1..%d, presented as blocks, reversed blocks, "
             "interleaved and two rotations (blocks+reversed only above total %d) in a rotating spelling that mixes K/R, D/E and "
             "all 16 neutrals; plus every composition with n0>=18 up to total %d (thorough: also minority charge <=6 up to total 80); plus the "
             "regime-intersection lattices: one charge type with n0 in 18,19,22,27,36 and 1..%d charges, no neutrals with a minority of 1..8 "
             "against a majority up to %d, and n0 in {1,17} with a minority of 1,2,5 against a majority of 25..40 (thorough: wider), and ten compositions with more than 256 residues of one class, one per search regime, and two with slides of 600 positions; plus "
             "every composition of total <=%d with ALL its arrangements. Per presentation: get_deltaMax() "
             "must equal the exact-rational maximum over the documented family, get_deltaMax(True) must return that value and a "
             "rearrangement of the input whose get_delta() equals it; values must agree across presentations. non-trivial = "
             "compositions with all three classes present; outcomes = distinct delta-max values" % (NK, NF, NZ, MJ, MJ, NA),
        bounds={"K": NK, "full_presentations_upto": NF, "all_arrangements_upto": NA, "tolerance_abs": TOL},
        assumptions=["documented family re-derived in vmc/refmodel/charge.py:dmax_family; at a block-length tie in the "
                     "one-charge-type regime either reading of the statement is accepted"])


def replay(case):
    return check_case(case)[0]
