"""C13 - sequence strings are normalised (upper-cased, whitespace deleted) or rejected, never silently altered."""
from .. import core, spaces
from ..apivec import api_vector, diff
from ..refmodel import tables as T

PROP = "C13"
SYMS = ["K", "e", "s", " ", "\t", "\n", " ", "\u001c", "B", "1", "*", "-", "é", "\x00", "ı", "ß", ">"]
HOSTS = ["KEG", "sTyAa", "GKEKEGPW"]
import collections as _c
import decimal as _d
import pathlib as _p


class _Peptidelike:
    """Not a string, but str() of it reads as a valid sequence."""
    def __init__(self, t):
        self.t = t

    def __str__(self):
        return self.t

    def __repr__(self):
        return "_Peptidelike(%r)" % self.t

    def __len__(self):
        return len(self.t)


NONSTR = [None, 0, 7, 3.5, b"KEKE", ["K", "E"], ("K", "E"), {"K"}, True, False, bytearray(b"KE"), {"K": 1}, object,
          # non-strings whose text form happens to be a word over the 20 residues
          float("nan"), float("inf"), _d.Decimal("Infinity"), _d.Decimal("NaN"), _p.PurePosixPath("mkvla"), ValueError("ACDEF"),
          KeyError("KEKE"), _c.UserString("ACDEF"), _Peptidelike("KEKE"), _Peptidelike("mkvla"), memoryview(b"KEKE"), 1e400, -float("inf"),
          ["KEKE"], ("ACD",), type("NAN", (), {}), Ellipsis, NotImplemented, range(3), frozenset("K"), complex("nan")]

_vec = {}


def ref_vec(n):
    from localcider.sequenceParameters import SequenceParameters as SP
    r = _vec.get(n)
    if r is None:
        r = _vec[n] = api_vector(SP(n), light="tiny" if len(n) > 400 else False)
        if len(_vec) > 50000:
            _vec.clear()
    return r


def sh(x):
    r = repr(x)
    return r if len(r) <= 100 else r[:90] + "...' (%d characters)" % len(x)


def normalise(s):
    return "".join(c for c in s.upper() if not c.isspace())


def check_case(case):
    from localcider.sequenceParameters import SequenceParameters as SP
    out = []

    def v(key, what, **kw):
        out.append({"key": key, "what": what, "case": dict(case, **kw)})
    if case["kind"] == "nonstring":
        x = NONSTR[case["index"]]
        try:
            o = SP(x)
        except Exception:  # noqa
            return out, "rejected", 1
        v("non-string-accepted", "SequenceParameters(%r) produced an object (%r)" % (x, getattr(o, "SeqObj", None) and o.get_sequence()))
        return out, "accepted", 1
    s = case["s"]
    n = normalise(s)
    valid = len(n) > 0 and all(c in T.AASET for c in n)
    if not valid and s != "" and len(s) <= 3:
        try:
            SP(s, sequenceFile="/nonexistent/vmc_c13.fasta")
            v("invalid-string-accepted-with-file-argument", "SequenceParameters(%r, sequenceFile=...) produced an object" % (s,), normalised=n)
        except Exception:  # noqa
            pass
    try:
        o = SP(s)
    except Exception as e:  # noqa
        if valid:
            v("valid-string-rejected", "SequenceParameters(%s) raised %r but normalises to the valid word %s" % (sh(s), e, sh(n)), normalised=n[:200])
        else:
            # a rejected string stays rejected when it is submitted again (second and third attempt in the same process)
            for attempt in (2, 3):
                try:
                    o = SP(s)
                except Exception:  # noqa
                    continue
                try:
                    shown = o.get_sequence()
                except Exception:  # noqa
                    shown = "?"
                v("invalid-string-accepted-on-resubmission", "SequenceParameters(%s) was rejected at first but attempt %d produced an object "
                  "(sequence %r)" % (repr(s)[:80], attempt, shown), normalised=n[:80])
                return out, "accepted-invalid", attempt
        return out, "rejected", 1
    if not valid and case.get("with_file"):
        pass
    if not valid:
        try:
            shown = o.get_sequence()
        except Exception:  # noqa
            shown = "?"
        v("invalid-string-accepted", "SequenceParameters(%s) was accepted (sequence %s) but it is not a word over the 20 residues "
          "after normalisation (%s)" % (sh(s), sh(shown), sh(n)), normalised=n[:200])
        return out, "accepted-invalid", 1
    calls = 1
    try:
        got = (o.get_sequence(), o.get_length(), len(o))
        calls += 3
    except Exception as e:  # noqa
        v("exception", "getters on SequenceParameters(%r) raised %r" % (s, e))
        return out, "accepted", calls
    if got != (n, len(n), len(n)):
        v("not-normalised", "SequenceParameters(%s): (sequence, get_length, len) = %r, expected %r" % (sh(s), (sh(got[0]),) + tuple(got[1:]), (sh(n), len(n), len(n))),
          normalised=n)
    a = api_vector(o, light="tiny" if len(n) > 400 else False)
    calls += len(a)
    d = diff(a, ref_vec(n))
    if d:
        v("analysis-differs:" + d[0], "SequenceParameters(%s).%s = %s but the normalised word %s gives %s" % (sh(s), d[0], sh(d[1]), sh(n), sh(d[2])),
          normalised=n)
    # the validator used as a plain query on the live object's backend (another string checked, accepted or rejected): the object
    # still describes its own sequence (for a deterministic eighth of the accepted strings)
    import zlib as _z
    if _z.crc32(s.encode("utf-8", "surrogatepass")) % 8 == 0:
        lt_ = "tiny" if len(n) > 400 else True
        for other in ("KKKKKKKKKKKKKKKKKKKKKKKKK", "  ", "KXK", "e"):
            try:
                o.SeqObj.validateSequence(other)
            except Exception:  # noqa
                pass
        calls += 4
        a3 = api_vector(o, light=lt_)
        d3 = diff(a3, api_vector(SP(n), light=lt_))
        if d3:
            v("analysis-differs(after validating other strings):" + d3[0], "SequenceParameters(%s): after its backend validator was asked about other "
              "strings, %s = %s but the normalised word gives %s" % (sh(s), d3[0], sh(d3[1]), sh(d3[2])), normalised=n[:200])
    # the string together with a (never opened) sequenceFile argument: the string still decides
    try:
        o3 = SP(s, sequenceFile="/nonexistent/vmc_c13.fasta")
        lt = "tiny" if len(n) > 400 else True
        if o3.get_sequence() != n or api_vector(o3, light=lt) != api_vector(SP(n), light=lt):
            v("string-with-file-argument", "SequenceParameters(%r, sequenceFile=...) gives sequence %r / different analyses" % (s, o3.get_sequence()),
              normalised=n)
        calls += 12
    except Exception as e:  # noqa
        v("string-with-file-argument", "SequenceParameters(%r, sequenceFile=...) raised %r although the string alone is accepted" % (s, e),
          normalised=n)
    # the same residues in the same letter case handed over as a backend Sequence (no validation on that route):
    # upper-casing and the bookkeeping derived from it must still agree with the normalised word
    raw = "".join(c for c in s if not c.isspace())
    if raw != n and raw.upper() == n and len(raw) == len(n):
        try:
            from localcider.backend.sequence import Sequence
            from localcider.sequencePermutants import SequencePermutants
            a2 = api_vector(SP(SeqObj=Sequence(raw)), light="tiny" if len(n) > 400 else False)
            calls += len(a2)
            d2 = diff(a2, ref_vec(n))
            if d2:
                v("analysis-differs(SeqObj route):" + d2[0], "SequenceParameters(SeqObj=Sequence(%r)).%s = %r but the normalised word %s "
                  "gives %r" % (raw, d2[0], d2[1], n, d2[2]), normalised=n)
            sp = SequencePermutants(raw).SeqObj
            if (sp.seq, sp.countPos(), sp.countNeg()) != (n, sum(c in "KR" for c in n), sum(c in "DE" for c in n)):
                v("analysis-differs(SequencePermutants route)", "SequencePermutants(%r): sequence/counts %r" % (raw, (sp.seq, sp.countPos(), sp.countNeg())),
                  normalised=n)
        except Exception as e:  # noqa
            v("exception", "backend route for %r raised %r" % (raw, e))
    return out, "accepted", calls


def crosstalk_cases():
    """(files to parse first, strings to construct afterwards) and the reverse order, each in a freshly imported package."""
    files = ["MKV 1LA\n12 KE\n", ">h\nAK E\n3 KA*\n", "MK\tV\n", "AK-E\n", "ak\n", "A1K2E3\n"]
    strings = ["MKV1LA", "MKV\tLA", "MK V LA", "AK-E", "ake", "A1K", " K\nE ", "K*", "12", "KE3"]
    return files, strings


def shard_crosstalk(order):
    import io
    from ..engines.history import fresh_world
    from ..refmodel.parser import ref_parse, ACCEPT, REJECT
    acc = core.Acc()
    fresh_world()
    _vec.clear()
    import localcider.backend.seqfileparser as P
    from localcider.backend.seqfileparser import SequenceFileParser
    files, strings = crosstalk_cases()
    store = {}
    P.open = lambda name, *a, **k: io.StringIO(store[name])

    def do_files():
        for i, text in enumerate(files):
            store["f"] = text
            verdict, exp, why = ref_parse(text)
            acc.transitions += 1
            try:
                got = SequenceFileParser().parseSeqFile("f", silent=True)
                ok = True
            except Exception:  # noqa
                ok, got = False, None
            if verdict == ACCEPT and (not ok or got != exp):
                acc.viol("file-parse-depends-on-earlier-strings", "after constructing strings, file %r parsed to %r (ok=%s), expected %r"
                         % (text, got, ok, exp), {"kind": "crosstalk", "order": order, "text": text})
            if verdict == REJECT and ok:
                acc.viol("file-parse-depends-on-earlier-strings", "after constructing strings, malformed file %r was accepted as %r"
                         % (text, got), {"kind": "crosstalk", "order": order, "text": text})

    def do_strings():
        for s_ in strings:
            v, verdict, calls = check_case({"kind": "string", "s": s_, "crosstalk": order})
            acc.transitions += calls
            acc.out(verdict)
            for x in v:
                acc.viol(x["key"] + ("(after parsing files)" if order == "files-first" else ("(after other API calls)" if order == "api-first" else "")), x["what"],
                         {"kind": "crosstalk", "order": order, "s": s_})
    def do_api():
        """Other API areas first: every analysis, user alphabets that merge residues, complexity, plots, shuffles."""
        from localcider.sequenceParameters import SequenceParameters as SP2
        o = SP2("ACDEFGHIKLMNPQRSTVWY")
        api_vector(o)
        merge = {a: ("K" if a in "KRH" else ("S" if a in "STM" else "A")) for a in T.AA}
        try:
            o.get_reduced_alphabet_sequence(userAlphabet=dict(merge))
            o.get_linear_complexity("WF", userAlphabet=dict(merge), blobLen=5)
            o.get_linear_complexity("LZW", 2, blobLen=4)
            o.get_kappa_X(["M", "W"], ["C"])
            o.get_linear_sequence_composition(3, [["M", "m"], ["W"]])
            o.get_shuffled_sequence([0, 1])
            o.show_linearComplexity("LC", userAlphabet=dict(merge), blobLen=6, getFig=True)
            import matplotlib.pyplot as plt
            plt.close("all")
        except Exception:  # noqa
            pass
    api_strings = ["m k v", "acdefghiklmnpqrstvwy", "WYVTSRQPNMLKIHGFEDCA\n", "M", "w c", "MX", "m1"]
    if order == "files-first":
        do_files()
        do_strings()
    elif order == "api-first":
        do_api()
        strings[:] = api_strings + strings
        do_strings()
        do_files()
    else:
        do_strings()
        do_files()
    del P.open
    acc.states += len(files) + len(strings)
    acc.traces += 1
    acc.evaluations += len(files) + len(strings)
    return acc


ENV_FILES = {"MISC": ">x\nKKKKKKKKKK\n", "DATA": "KKKKKKKKKKKK\n", "README": "This is not a sequence file.\n", "WIDE": ">w\nEEEE\n", "make": "GG\n",
             "seq.fasta": ">s\nMKVLA\n", "empty.txt": "", "AKE": ">a\nDDD\n", "ake": "WWW\n", "A K E": "CCC\n", "LICENSE": "text\n", "K": "E\n"}
ENV_DIRS = ["TEST", "files", "SEQ", "G"]


def shard_environment():
    """The environment as a dimension: the same strings constructed while the working directory contains files and directories
    whose NAMES are those strings (valid words such as MISC, DATA, README, K; non-words such as seq.fasta).  What the string
    names on disk is irrelevant to the statement: a word is accepted as itself, a non-word is rejected."""
    import os
    import shutil
    import tempfile
    acc = core.Acc()
    old = os.getcwd()
    d = tempfile.mkdtemp(prefix="vmc_c13_env_")
    try:
        for name, text in ENV_FILES.items():
            with open(os.path.join(d, name), "w") as f:
                f.write(text)
        for name in ENV_DIRS:
            os.mkdir(os.path.join(d, name))
        os.chdir(d)
        strings = list(ENV_FILES) + ENV_DIRS + ["./seq.fasta", os.path.join(d, "seq.fasta"), os.path.join(d, "DATA"), "misc", "Misc", " MISC ",
                                                "data", "D A T A", "readme", "TEST", "test", "files", ".", "..", d, "", "KEKE", "AKE\n"]
        for s_ in strings:
            case = {"kind": "string", "s": s_, "environment": True}
            v, verdict, calls = check_case(case)
            acc.states += 1
            acc.traces += 1
            acc.transitions += calls
            acc.evaluations += 1
            acc.out(verdict)
            acc.bump("environment_" + verdict)
            if verdict == "accepted":
                acc.nontrivial += 1
            for x in v:
                acc.viol(x["key"] + "(file of that name in the working directory)", x["what"] + " [working directory holds files/directories named "
                         "like the strings]", x["case"])
    finally:
        os.chdir(old)
        shutil.rmtree(d, True)
    return acc


def shard(s):
    acc = core.Acc()
    kind = s[0]
    if kind == "environment":
        return shard_environment()
    if kind == "crosstalk":
        return shard_crosstalk(s[1])
    if kind == "words":
        _, L, pre = s
        gen = ({"kind": "string", "s": "".join(t)} for t in _product(L, pre))
    elif kind == "insert":
        _, lo, hi = s
        def g():
            for cp in range(lo, hi):
                c = chr(cp)
                for h in HOSTS:
                    for pos in range(len(h) + 1):
                        yield {"kind": "string", "s": h[:pos] + c + h[pos:], "codepoint": cp}
        gen = g()
    elif kind == "longs":
        base = "MKVLAAGIDESTYPWFRNQHC"
        def g2():
            for n in (130, 300):
                w = (base * (n // len(base) + 1))[:n]
                yield {"kind": "string", "s": w}
                yield {"kind": "string", "s": w.lower()}
                yield {"kind": "string", "s": " ".join(w[i:i + 10] for i in range(0, n, 10)) + "\n"}
                yield {"kind": "string", "s": "\n".join(w[i:i + 60].lower() for i in range(0, n, 60))}
                yield {"kind": "string", "s": w[:n // 2] + "X" + w[n // 2:]}
                yield {"kind": "string", "s": w + " 1"}
                # long strings whose only foreign characters are ones some internal table knows (+, -, 0, *), long blank strings
                for c in "+-0*":
                    for pos in (0, n // 3, n):
                        yield {"kind": "string", "s": w[:pos] + c + w[pos:]}
                yield {"kind": "string", "s": ("+-0" * n)[:n]}
                yield {"kind": "string", "s": " " * n}
                yield {"kind": "string", "s": (" \t\n" * n)[:n]}
            # many separate whitespace stretches (blocks of ten over 600 / 2500 residues, 60-column lines over 3000), and
            # very long strings (beyond 2000 characters) carrying one foreign character from outside Latin-1 whose code is
            # congruent modulo 256 / 65536 to a whitespace character or a residue letter, or real Unicode whitespace
            for n in (600, 2500):
                w = (base * (n // len(base) + 1))[:n]
                yield {"kind": "string", "s": " ".join(w[i:i + 10] for i in range(0, n, 10))}
                yield {"kind": "string", "s": "\n".join(w[i:i + 60] for i in range(0, n, 60)) + "\n"}
                yield {"kind": "string", "s": "\t \r\n".join(w[i:i + 5].lower() for i in range(0, n, 5))}
            n = 2100
            w = (base * (n // len(base) + 1))[:n]
            yield {"kind": "string", "s": w}
            for basecp in (0x100, 0x2000, 0x3000, 0xFF00, 0x10000, 0x1F600):
                for off in (9, 10, 13, 32, 65, 75, 97, 42, 43, 48):
                    c = chr(basecp + off)
                    for pos in (0, 1000, n):
                        yield {"kind": "string", "s": w[:pos] + c + w[pos:]}
            for c in ("\u2003", "\u3000", "\u2028", "\x85", "\xa0", "\u200b", "\u200d", "\u2020", "\u0141", "\u0120", "\ufeff"):
                yield {"kind": "string", "s": w[:700] + c + w[700:]}
                yield {"kind": "string", "s": c + w}
            # raw lengths around 1024 / 2048 / 4096 characters (slice- or buffer-wise processing), whitespace or a foreign character
            # inside, every kind of last character
            for L_ in (1023, 1024, 1025, 1026, 2047, 2048, 2049, 2050, 4097):
                w = (base * (L_ // len(base) + 1))[:L_]
                yield {"kind": "string", "s": w}
                yield {"kind": "string", "s": w[:500] + " " + w[501:]}                   # one blank inside, raw length L_
                yield {"kind": "string", "s": w[:500] + "\n" + w[501:L_ - 1] + "\n"}    # ends with a newline
                yield {"kind": "string", "s": w[:500] + " " + w[501:L_ - 1] + "X"}        # ends with a foreign letter
                yield {"kind": "string", "s": w[:500] + "\t" + w[501:L_ - 1] + "1"}      # ends with a digit
                yield {"kind": "string", "s": " " + w[1:]}                                # starts with a blank
            for n in (49, 50, 51, 64):
                w = (base * 4)[:n]
                yield {"kind": "string", "s": w[:n - 1] + "0"}
                yield {"kind": "string", "s": "-" + w[1:]}
                yield {"kind": "string", "s": " " * n}
        gen = g2()
    else:
        gen = ({"kind": "nonstring", "index": i} for i in range(len(NONSTR)))
    for case in gen:
        with core.istate(repr(case.get("s", case.get("index")))):
            v, verdict, calls = check_case(case)
        acc.states += 1
        acc.traces += 1
        acc.transitions += calls
        acc.evaluations += 1
        acc.out(verdict)
        acc.bump(verdict)
        if verdict == "accepted" and case["kind"] == "string" and case["s"] != normalise(case["s"]):
            acc.nontrivial += 1      # accepted AND actually needed normalising
            if len(case["s"]) >= 4:
                acc.sample({"input": case["s"], "normalised": normalise(case["s"])}, cap=1)
        for x in v:
            acc.viol(x["key"], x["what"], x["case"])
    return acc


def _product(L, pre):
    import itertools
    for t in itertools.product(range(len(SYMS)), repeat=L - len(pre)):
        yield [SYMS[i] for i in pre] + [SYMS[i] for i in t]


def run(tier, seed, t0):
    L = 4 if tier == "quick" else 5
    top = 0x250 if tier == "quick" else 0x10000
    import itertools
    shards = [("empty",)]
    for Lw in range(0, L + 1):
        k = min(2, Lw)
        for pre in itertools.product(range(len(SYMS)), repeat=k):
            shards.append(("words", Lw, pre))
    step = 0x40 if tier == "quick" else 0x400
    shards += [("insert", lo, min(top, lo + step)) for lo in range(0, top, step)]
    shards.append(("nonstring",))
    shards.append(("longs",))
    shards.append(("environment",))
    shards += [("crosstalk", "files-first"), ("crosstalk", "strings-first"), ("crosstalk", "api-first")]
    shards = [s for s in shards if s[0] != "empty"]
    shards.sort(key=lambda s: -(s[1] if s[0] == "words" else 3))
    acc = core.pmap(shard, shards)
    acc.merge(core.run_optimized(PROP, tier))      # the rejection battery once more under `python -O`
    return core.finish(
        PROP, tier, seed, acc, t0,
        rule="every string of length 0..%d over a 17-symbol alphabet (upper/lower residues, space, tab, newline, U+00A0, U+001C, "
             "B, 1, *, -, e-acute, NUL, dotless i, sharp s, >), every code point U+0000..U+%04X inserted at every position of 3 host "
             "sequences, long strings (49..4097 characters, raw lengths 1023..1026 / 2047..2050 / 4097 with a blank, newline, foreign letter or digit inside or at the end; up to 500 separate whitespace stretches; 2100-character strings with one foreign character from outside Latin-1 at three positions) in valid, mixed and invalid forms (foreign +, -, 0, * at three positions, all blank), and %d non-string arguments (incl. objects whose str() is a valid word: nan, inf, Decimal, paths, exceptions, UserString); every rejected string is submitted three times and must stay rejected; 40 strings constructed while the working directory holds files and directories named like them (words such as MISC, DATA, K and non-words such as seq.fasta); oracle from the statement: with n = upper-cased input minus whitespace, "
             "construction succeeds iff n is a non-empty word over the 20 letters, then sequence/length/len equal n and a 32-entry "
             "read-only API vector equals that of SequenceParameters(n) (also when the same mixed-case residues are handed over as a backend "
             "Sequence / SequencePermutants); otherwise an exception; in a freshly imported package six sequence files are parsed before "
             "ten strings are constructed, and the reverse; non-trivial = accepted strings "
             "that differ from their normal form" % (L, top - 1, len(NONSTR)),
        bounds={"L": L, "alphabet": len(SYMS), "codepoints": top, "hosts": HOSTS},
        assumptions=["str subclasses are not judged (the statement says non-strings are rejected and strings normalised)"],
        min_outcomes=2)


def opt_shards(tier):
    return [(shard, ("nonstring",)), (shard, ("words", 2, ())), (shard, ("words", 3, (8,))), (shard, ("insert", 0x20, 0x80)), (shard, ("longs",))]


def replay(case):
    if case.get("kind") == "crosstalk":
        return shard_crosstalk(case["order"]).violations
    if case.get("environment"):
        return [x for x in shard_environment().violations if x["case"].get("s") == case.get("s")]
    return check_case(case)[0]
