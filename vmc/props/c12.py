"""C12 - reduced alphabets implement the documented residue partitions; homomorphism laws; user alphabets validated."""
import itertools

from .. import core
from ..refmodel import tables as T

PROP = "C12"


def red(seq, **kw):
    from localcider.sequenceParameters import SequenceParameters as SP
    r = SP(seq).get_reduced_alphabet_sequence(**kw)
    if not (isinstance(r, tuple) and len(r) == 2 and isinstance(r[0], str)):
        raise TypeError("unexpected return value %r" % (r,))
    return r[0], list(r[1])


def valid_user_alphabets():
    ident = {a: a for a in T.AA}
    two = {a: ("L" if a in "LVIMCAGSTPFYW" else "E") for a in T.AA}
    three = {a: ("K" if a in "KRH" else ("S" if a in "ST" else "A")) for a in T.AA}
    rot = {a: T.AA[(i + 7) % 20] for i, a in enumerate(T.AA)}
    chain = {a: ("K" if a in "LKDE" else "L") for a in T.AA}     # not idempotent and merging
    return {"identity": ident, "two": two, "three": three, "rotation": rot, "chain": chain}


def check_partition(case):
    size = case["size"]
    out = []
    calls = 0

    def v(key, what, **kw):
        out.append({"key": key, "what": what, "case": dict(case, **kw)})
    groups = T.REDUCED[size]
    rep_of_group = {}
    alph_seen = None
    for g in groups:
        for a in g:
            calls += 1
            try:
                r, alph = red(a, alphabetSize=size)
            except Exception as e:  # noqa
                v("exception", "size %d residue %s raised %r" % (size, a, e), residue=a)
                continue
            if len(r) != 1 or r not in g:
                v("wrong-group", "size %d: residue %s is mapped to %r, which is not a member of its documented group (%s)"
                  % (size, a, r, g), residue=a, observed=r)
            rep_of_group.setdefault(g, set()).add(r)
            if alph_seen is None:
                alph_seen = alph
            elif alph != alph_seen:
                v("alphabet-unstable", "size %d: returned alphabet differs between calls: %r vs %r" % (size, alph, alph_seen))
    # what a call returns belongs to the caller: editing the returned alphabet list must not affect later calls
    try:
        r_first = red("ACDEFGHIKLMNPQRSTVWY", alphabetSize=size)
        from localcider.sequenceParameters import SequenceParameters as SP
        raw = SP("ACDEFGHIKLMNPQRSTVWY").get_reduced_alphabet_sequence(size)
        if isinstance(raw[1], list):
            raw[1].append("-")
            raw[1].sort()
            raw[1].pop()
        r_again = red("ACDEFGHIKLMNPQRSTVWY", alphabetSize=size)
        calls += 3
        if r_again[0] != r_first[0] or sorted(r_again[1]) != sorted(r_first[1]):
            v("returned-alphabet-shared", "size %d: after the caller edited the alphabet list it had been given, a new call returns %r "
              "(before: %r)" % (size, r_again[1], r_first[1]))
    except Exception as e:  # noqa
        v("exception", "size %d: %r" % (size, e))
    # the same size in other spellings (numpy integer, integral float, digit string - the error message of the package itself
    # says a string convertible to an integer is fine) must give the same reduction
    import numpy as _np
    whole = "ACDEFGHIKLMNPQRSTVWY"
    try:
        base = red(whole, alphabetSize=size)
        for spelled in (_np.int64(size), _np.int32(size), float(size), str(size), " %d " % size):
            calls += 1
            try:
                r2 = red(whole, alphabetSize=spelled)
            except Exception as e:  # noqa
                v("size-spelling-rejected", "alphabetSize=%r (for %d) raised %r" % (spelled, size, e), spelled=repr(spelled))
                continue
            if r2[0] != base[0] or sorted(r2[1]) != sorted(base[1]):
                v("size-spelling-changes-result", "alphabetSize=%r gives %s, alphabetSize=%d gives %s" % (spelled, r2[0], size, base[0]),
                  spelled=repr(spelled))
    except Exception as e:  # noqa
        v("exception", "size %d on the 20-letter word raised %r" % (size, e))
    reps = set()
    for g, rs in rep_of_group.items():
        if len(rs) != 1:
            v("group-split", "size %d: members of group (%s) map to different representatives %r" % (size, g, sorted(rs)), group=g)
        reps |= rs
    if len(reps) != size:
        v("group-count", "size %d: %d distinct representatives" % (size, len(reps)))
    if alph_seen is not None and (sorted(alph_seen) != sorted(reps) or len(alph_seen) != size):
        v("alphabet-returned", "size %d: returned alphabet %r, representatives in use %r" % (size, alph_seen, sorted(reps)))
    return out, calls


def check_sizes(case):
    out = []
    calls = 0
    cands = list(range(-1, 27)) + ["abc", "", "two", None, "7", "9"]
    for s in cands:
        calls += 1
        ok_expected = s in T.SIZES
        try:
            r = red("ACDEFGHIKLMNPQRSTVWY", alphabetSize=s)
            accepted = True
        except Exception:  # noqa
            accepted = False
        if accepted != ok_expected:
            out.append({"key": "size-accepted" if accepted else "size-rejected",
                        "what": "alphabetSize=%r was %s" % (s, "accepted" if accepted else "rejected"),
                        "case": dict(case, size=s)})
    # the same sweep three times over on ONE live object, through both entry points
    from localcider.sequenceParameters import SequenceParameters as SP
    o = SP("ACDEFGHIKLMNPQRSTVWY")
    for sweep in range(3):
        for s in cands:
            for how in ("reduce", "complexity"):
                calls += 1
                try:
                    if how == "reduce":
                        o.get_reduced_alphabet_sequence(s)
                    else:
                        o.get_linear_complexity("WF", s, blobLen=5)
                    accepted = True
                except Exception:  # noqa
                    accepted = False
                if accepted != (s in T.SIZES):
                    out.append({"key": "size-accepted-on-reused-object" if accepted else "size-rejected-on-reused-object",
                                "what": "sweep %d on a reused object (%s): alphabetSize=%r was %s"
                                % (sweep + 1, how, s, "accepted" if accepted else "rejected"), "case": dict(case, size=s, sweep=sweep)})
    return out, calls


def check_laws(case):
    """length, residue-by-residue (concatenation) and idempotence for one pair of words, all sizes."""
    u, w = case["u"], case["w"]
    out = []
    calls = 0
    for size in T.SIZES:
        try:
            ru, _ = red(u, alphabetSize=size)
            rw = red(w, alphabetSize=size)[0] if w else ""
            ruw, _ = red(u + w, alphabetSize=size)
            rr, _ = red(ruw, alphabetSize=size)
            calls += 4
        except Exception as e:  # noqa
            out.append({"key": "exception", "what": "size %d on %s/%s raised %r" % (size, u, w, e), "case": dict(case, size=size)})
            continue
        if len(ruw) != len(u + w):
            out.append({"key": "length", "what": "size %d: reduce(%s) = %r changes the length" % (size, u + w, ruw), "case": dict(case, size=size)})
        if ruw != ru + rw:
            out.append({"key": "not-residue-by-residue", "what": "size %d: reduce(%s)=%s but reduce(%s)+reduce(%s)=%s"
                        % (size, u + w, ruw, u, w, ru + rw), "case": dict(case, size=size)})
        if rr != ruw:
            out.append({"key": "not-idempotent", "what": "size %d: reduce(reduce(%s)) = %s != %s" % (size, u + w, rr, ruw),
                        "case": dict(case, size=size)})
        # independent reference: documented groups, representative = whatever the single-residue call gave
        groups = T.REDUCED[size]
        gm = {a: g for g in groups for a in g}
        for a, b in zip(u + w, ruw):
            if b not in gm[a]:
                out.append({"key": "wrong-group", "what": "size %d: in %s residue %s became %s (group %s)" % (size, u + w, a, b, gm[a]),
                            "case": dict(case, size=size)})
                break
    return out, calls


def check_repsets(case):
    """Sequences whose set of residue types is exactly the representative list of one predefined alphabet (or one of the user
    alphabets' target sets), reduced with EVERY predefined size and every user alphabet: residue by residue, whatever the letters."""
    out = []
    calls = 0
    hosts = {}
    for s1 in T.SIZES:
        try:
            reps = list(red("".join(T.AA), alphabetSize=s1)[1])     # the representatives the library itself reports for that size
        except Exception:  # noqa
            reps = [g[0] for g in T.REDUCED[s1]]
        hosts["representatives of size %d" % s1] = "".join(reps) + "".join(reversed(reps))[: max(1, 12 - len(reps))]
    for name, ua in valid_user_alphabets().items():
        tg = sorted(set(ua.values()))
        hosts["targets of user alphabet %s" % name] = "".join(tg) * (2 if len(tg) < 6 else 1)
    for hname, seq in hosts.items():
        for s2 in T.SIZES:
            gm = {a: g for g in T.REDUCED[s2] for a in g}
            calls += 1
            try:
                r, alph = red(seq, alphabetSize=s2)
            except Exception as e:  # noqa
                out.append({"key": "exception", "what": "%s reduced with size %d raised %r" % (hname, s2, e), "case": dict(case, host=hname, size=s2)})
                continue
            reps2 = {}
            bad = len(r) != len(seq) or len(alph) != s2
            for a, b in zip(seq, r):
                if b not in gm[a] or reps2.setdefault(gm[a], b) != b:
                    bad = True
            if bad:
                out.append({"key": "wrong-group", "what": "%s (%s) reduced with size %d gives %s with alphabet %r" % (hname, seq, s2, r, list(alph)),
                            "case": dict(case, host=hname, size=s2)})
        for name, ua in valid_user_alphabets().items():
            calls += 1
            try:
                r, alph = red(seq, userAlphabet=dict(ua))
            except Exception as e:  # noqa
                out.append({"key": "valid-user-alphabet-rejected", "what": "%s with user alphabet %s raised %r" % (hname, name, e), "case": dict(case, host=hname, ua=name)})
                continue
            if r != "".join(ua[a] for a in seq):
                out.append({"key": "user-alphabet-application", "what": "%s (%s) with user alphabet %s gives %s, expected %s"
                            % (hname, seq, name, r, "".join(ua[a] for a in seq)), "case": dict(case, host=hname, ua=name)})
    return out, calls


def check_user(case):
    out = []
    calls = 0
    seq = "ACDEFGHIKLMNPQRSTVWYKEKE"

    def v(key, what, **kw):
        out.append({"key": key, "what": what, "case": dict(case, **kw)})
    for name, ua in valid_user_alphabets().items():
        calls += 1
        try:
            r, alph = red(seq, userAlphabet=dict(ua))
        except Exception as e:  # noqa
            v("valid-user-alphabet-rejected", "user alphabet %s raised %r" % (name, e), ua=name)
            continue
        exp = "".join(ua[a] for a in seq)
        if r != exp:
            v("user-alphabet-application", "user alphabet %s: got %s expected %s" % (name, r, exp), ua=name)
        if sorted(alph) != sorted(set(ua.values())):
            v("user-alphabet-returned", "user alphabet %s: returned alphabet %r, representatives %r" % (name, alph, sorted(set(ua.values()))), ua=name)
        # alphabetSize is ignored when a user alphabet is given
        calls += 1
        try:
            r2, _ = red(seq, alphabetSize=7, userAlphabet=dict(ua))
            if r2 != exp:
                v("user-alphabet-application", "user alphabet %s with alphabetSize=7: got %s" % (name, r2), ua=name)
        except Exception:  # noqa
            acc_dc = True  # noqa  (whether an invalid size is looked at together with a user alphabet is unspecified)
        # ... also when the size given alongside is one of the twelve predefined ones (two valid options together)
        for size in T.SIZES:
            for sp in (size, float(size), str(size)):
                calls += 1
                try:
                    r3, a3 = red(seq, alphabetSize=sp, userAlphabet=dict(ua))
                except Exception as e:  # noqa
                    v("valid-user-alphabet-rejected", "user alphabet %s together with alphabetSize=%r raised %r" % (name, sp, e), ua=name, size=size)
                    continue
                if r3 != exp or sorted(a3) != sorted(set(ua.values())):
                    v("user-alphabet-application", "user alphabet %s together with alphabetSize=%r: got %s %r, the user alphabet alone gives %s"
                      % (name, sp, r3, list(a3), exp), ua=name, size=size)
        # the same mapping with its keys inserted in other orders (a dict is a mapping: insertion order carries no meaning),
        # and with additional non-amino-acid keys (whether those are accepted is not specified; if accepted, the 20 must be applied)
        orders = {"reversed": list(reversed(T.AA)), "grouped-by-target": sorted(T.AA, key=lambda a: (ua[a], a)),
                  "rotated": list(T.AA[7:]) + list(T.AA[:7]), "interleaved": list(T.AA[::2]) + list(T.AA[1::2]),
                  "hydrophobic-first": list("LVIMCAGSTPFYWEDNQKRH")}
        for oname, order in orders.items():
            for extra in ((), (("X", "A"), ("b", "L"), ("*", "K"))):
                d = {}
                for kx, vx in extra[:1]:
                    d[kx] = vx
                for a in order:
                    d[a] = ua[a]
                for kx, vx in extra[1:]:
                    d[kx] = vx
                calls += 1
                try:
                    r, alph = red(seq, userAlphabet=d)
                except Exception as e:  # noqa
                    if not extra:
                        v("valid-user-alphabet-rejected", "user alphabet %s with keys inserted in %s order raised %r" % (name, oname, e),
                          ua=name, order=oname)
                    continue
                if r != exp or sorted(alph) != sorted(set(ua.values())):
                    v("user-alphabet-application", "user alphabet %s with keys inserted in %s order%s: got %s %r, expected %s"
                      % (name, oname, " and extra keys" if extra else "", r, alph, exp), ua=name, order=oname, extra=bool(extra))
        # every single fault
        for a in T.AA:
            faults = []
            d = dict(ua)
            del d[a]
            faults.append(("missing", d))
            for badname, bad in (("lower", ua[a].lower()), ("X", "X"), ("empty", ""), ("int", 5), ("two-letters", "AA"), ("none", None),
                                 ("padded-right", ua[a] + " "), ("padded-left", " " + ua[a]), ("newline", ua[a] + "\n"), ("tab", "\t" + ua[a]),
                                 ("blank", " "), ("bytes", ua[a].encode()), ("list", [ua[a]]), ("tuple", (ua[a],))):
                d = dict(ua)
                d[a] = bad
                faults.append((badname, d))
            # the invalid target is itself a key of the dictionary (an extra, non-amino-acid key)
            for badname, bad in (("X-also-a-key", "X"), ("lower-also-a-key", a.lower()), ("star-also-a-key", "*")):
                d = dict(ua)
                d[a] = bad
                d[bad] = bad
                faults.append((badname, d))
                d = dict(ua)
                d[a] = bad
                d[bad] = "A"
                faults.append((badname + "->A", d))
            for fname, d in faults:
                calls += 1
                try:
                    r = red(seq, userAlphabet=d)
                except Exception:  # noqa
                    continue
                v("invalid-user-alphabet-accepted", "user alphabet %s with fault %s at %s was accepted: %r" % (name, fname, a, r[0]),
                  ua=name, fault=fname, residue=a)
    # the same on ONE live object: valid alphabets, faulty ones and predefined sizes interleaved
    from localcider.sequenceParameters import SequenceParameters as SP
    o = SP(seq)
    from ..apivec import api_vector
    api_vector(o)                 # every other read-only analysis first (history only; results not judged here)
    vas = list(valid_user_alphabets().items())
    for rnd in range(2):
        for i, (name, ua) in enumerate(vas if rnd == 0 else list(reversed(vas))):
            calls += 3
            try:
                r = o.get_reduced_alphabet_sequence(userAlphabet=dict(ua))
                if r[0] != "".join(ua[a] for a in seq) or sorted(r[1]) != sorted(set(ua.values())):
                    v("user-alphabet-depends-on-earlier-calls", "on a reused object user alphabet %s gave %r" % (name, r), ua=name)
            except Exception as e:  # noqa
                v("valid-user-alphabet-rejected", "on a reused object user alphabet %s raised %r" % (name, e), ua=name)
            bad = dict(ua)
            bad[T.AA[(3 * i + rnd) % 20]] = "s"
            try:
                r = o.get_reduced_alphabet_sequence(userAlphabet=bad)
                v("invalid-user-alphabet-accepted", "on a reused object a user alphabet mapping to 's' was accepted: %r" % (r[0],), ua=name)
            except Exception:  # noqa
                pass
            size = T.SIZES[(5 * i + rnd) % 12]
            try:
                r = o.get_reduced_alphabet_sequence(size)
                gm = {a: g for g in T.REDUCED[size] for a in g}
                if len(r[0]) != len(seq) or any(b not in gm[a] for a, b in zip(seq, r[0])):
                    v("wrong-group", "on a reused object size %d gave %s" % (size, r[0]), size=size)
            except Exception as e:  # noqa
                v("exception", "on a reused object size %d raised %r" % (size, e), size=size)
    # a (correctly) rejected user alphabet between two requests for the SAME predefined size on one object: the second must equal
    # the first; the fault sits at every position of the validation order in turn
    for si, size in enumerate(T.SIZES):
        o2 = SP(seq)
        gm = {a: g for g in T.REDUCED[size] for a in g}
        try:
            first = o2.get_reduced_alphabet_sequence(size)
            calls += 1
        except Exception as e:  # noqa
            v("exception", "size %d raised %r" % (size, e), size=size)
            continue
        for k, a in enumerate(T.AA):
            bad = dict(vas[(si + k) % len(vas)][1])
            if k % 2:
                del bad[a]
            else:
                bad[a] = "x"
            calls += 2
            try:
                o2.get_reduced_alphabet_sequence(userAlphabet=bad)
                v("invalid-user-alphabet-accepted", "a user alphabet with a fault at %s was accepted on a reused object" % a, residue=a)
            except Exception:  # noqa
                pass
            try:
                again = o2.get_reduced_alphabet_sequence(size)
            except Exception as e:  # noqa
                v("exception", "size %d after a rejected user alphabet raised %r" % (size, e), size=size)
                break
            if again[0] != first[0] or list(again[1]) != list(first[1]) or any(b not in gm[x] for x, b in zip(seq, again[0])):
                v("rejected-alphabet-changes-later-results", "size %d before a rejected user alphabet (fault at %s) gave %s, afterwards %s"
                  % (size, a, first[0], again[0]), size=size, residue=a)
                break
    # ONE dictionary object edited in place between calls on one object: every call sees the dictionary as it is now
    o3 = SP(seq)
    d = {a: a for a in T.AA}
    for step, (a, b) in enumerate([(None, None), ("R", "K"), ("D", "E"), ("T", "S"), ("I", "L"), ("K", "H"), ("A", "x"), ("A", "G")]):
        if a is not None:
            d[a] = b
        calls += 1
        valid = all(x in T.AASET for x in d.values())
        try:
            r = o3.get_reduced_alphabet_sequence(userAlphabet=d)
        except Exception as e:  # noqa
            if valid:
                v("valid-user-alphabet-rejected", "dictionary edited in place (step %d) raised %r" % (step, e), step=step)
            continue
        if not valid:
            v("invalid-user-alphabet-accepted", "dictionary edited in place so that %s maps to %r was accepted" % (a, b), step=step)
        elif r[0] != "".join(d[x] for x in seq) or sorted(r[1]) != sorted(set(d.values())):
            v("user-alphabet-edited-in-place-ignored", "after in-place edit %d (%s->%s) of the same dictionary object the result is %r %r"
              % (step, a, b, r[0], list(r[1])), step=step)
    for bad in ([("A", "A")], "ACDEFGHIKLMNPQRSTVWY", 5, [1, 2, 3], ("A",), {"A"}):
        calls += 1
        try:
            r = red(seq, userAlphabet=bad)
        except Exception:  # noqa
            continue
        v("non-dict-user-alphabet-accepted", "userAlphabet=%r was accepted: %r" % (bad, r[0]), bad=repr(bad))
    return out, calls


def check_case(case):
    return {"partition": check_partition, "sizes": check_sizes, "laws": check_laws, "user": check_user, "repsets": check_repsets}[case["kind"]](case)


def shard(cases):
    acc = core.Acc()
    for case in cases:
        with core.istate(case["kind"] + str(case.get("size", ""))):
            v, calls = check_case(case)
        acc.states += 1
        acc.traces += 1
        acc.transitions += calls
        acc.evaluations += calls
        if case["kind"] != "laws" or len(set(case["u"] + case["w"])) > 1:
            acc.nontrivial += 1
        acc.out((case["kind"], case.get("size"), case.get("u"), case.get("w", "")[:1]))
        for x in v:
            acc.viol(x["key"], x["what"], x["case"])
        if case["kind"] == "partition" and case["size"] in (6, 12):
            acc.sample(dict(case, api_calls=calls))
    return acc


def run(tier, seed, t0):
    cases = [{"kind": "partition", "size": s} for s in T.SIZES] + [{"kind": "sizes"}, {"kind": "user"}, {"kind": "repsets"}]
    w1 = list(T.AA)
    w2 = ["".join(t) for t in itertools.product(T.AA, repeat=2)]
    if tier == "quick":
        pairs = [(u, w) for u in w1 for w in w2] + [(w, "") for w in w2]
    else:
        pairs = [(u, w) for u in w2 for w in w2] + [("".join(t), "") for t in itertools.product(T.AA, repeat=3)]
    cases += [{"kind": "laws", "u": u, "w": w} for u, w in pairs]
    nsh = 16 * 8
    acc = core.pmap(shard, [cases[i::nsh] for i in range(nsh)])
    acc.merge(core.run_optimized(PROP, tier))      # the rejection battery once more under `python -O`
    return core.finish(
        PROP, tier, seed, acc, t0,
        rule="exhaustive: 12 sizes x 20 residues against the documented partition table (representative is a member of the "
             "residue's own group, one representative per group, exactly `size` of them, returned alphabet = representatives); "
             "sizes -1..26 and 6 non-integers (exactly the 12 accepted); length / concatenation / idempotence laws on %d word pairs "
             "x 12 sizes; sequences whose letter set is exactly the representative list of a predefined size (or the target set of a user alphabet) reduced with every size and user alphabet; 5 valid user alphabets (one not idempotent and merging) applied residue by residue, each with every single fault (20 keys x {missing, "
             "lower case, X, empty, int, two letters, None, whitespace-padded letters, bytes, one-element list/tuple, and X / lower case / * that are ALSO keys of the dictionary}) and 6 non-dict arguments rejected; "
             "each valid alphabet together with each of the 12 predefined sizes (int, float, string); a rejected alphabet (fault at each of the 20 positions) between two requests for the same size on one object, for all 12 sizes; one dictionary object edited in place between calls; "
             "each valid alphabet also with its keys inserted in 5 other orders, with and without extra non-amino-acid keys (same result); "
             "dont-care: whether extra keys with valid targets are accepted, empty "
             "containers; non-trivial = all but single-letter law cases" % len(pairs),
        bounds={"law_pairs": len(pairs), "sizes": list(T.SIZES)},
        assumptions=["partition table pinned from the docstring in vmc/refmodel/tables.py:REDUCED"])


def opt_shards(tier):
    return [(shard, [{"kind": "sizes"}, {"kind": "user"}, {"kind": "partition", "size": 8}])]


def replay(case):
    with core.istate(case["kind"] + str(case.get("size", ""))):       # the same interpreter state as in the exploration
        return check_case(case)[0]
