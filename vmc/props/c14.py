"""C14 - sequence files parse to exactly their residues; malformed files are rejected."""
import io
import itertools
import os
import shutil
import tempfile

from .. import core
from ..apivec import api_vector, diff
from ..refmodel import tables as T
from ..refmodel.parser import ref_parse, ACCEPT, REJECT, DONTCARE

PROP = "C14"
SYMS8 = ["A", "K", "\n", " ", "1", "*", ">", "b"]
SYMS9 = SYMS8 + ["E"]
CORRUPT = [chr(c) for c in range(32, 127)] + ["\n", "\t", "\r", "é", "\x00", " ",
           "\u0663", "\uff15", "\u0967", "\u00b2", "\uff21", "\u2028", "\u3000", "\u212a"]   # non-ASCII digits, superscript 2, fullwidth A, ...
SEQ23 = "MKEDSTYAGPWLKRHQNCVIFEK"
SEQ61 = "MDVFMKGLSKAKEGVVAAAEKTKQGVAEAAGKTKEGVLYVGSKTKEGVVHGVATVAEKTKEQ"

_files = {}


class _FS:
    """In-memory stand-in for open() inside localcider.backend.seqfileparser."""
    def __call__(self, name, mode="r", buffering=-1, encoding=None, errors=None, newline=None, **k):
        data = _files[name]
        if isinstance(data, str):
            if "b" not in mode and encoding is None and errors is None and newline is None:
                return io.StringIO(data, newline=None)     # fast path: same universal-newline reading as a text-mode file
            data = data.encode("utf-8")
        if "b" in mode:
            return io.BytesIO(data)
        # what open() does in text mode, with whatever encoding / errors / newline arguments the library passed
        return io.TextIOWrapper(io.BytesIO(data), encoding=encoding or "utf-8", errors=errors, newline=newline)


def install_fs():
    import localcider.backend.seqfileparser as P
    if not isinstance(getattr(P, "open", None), _FS):
        P.open = _FS()


_vec = {}


def ref_vec(n):
    from localcider.sequenceParameters import SequenceParameters as SP
    r = _vec.get(n)
    if r is None:
        r = _vec[n] = api_vector(SP(n))
        if len(_vec) > 20000:
            _vec.clear()
    return r


BADBYTES = [b"\x80", b"\xa0", b"\xb5", b"\xc5", b"\xe9", b"\xff", b"\xc3", b"\xe2\x82", b"\xed\xa0\x80", b"\xc0\x80", b"\xf8\x88\x80\x80\x80",
            b"\x92", b"\xfe"]


def check_bytes(data, case, real=None):
    """A file holding bytes that are not text in the read encoding inside a sequence line cannot be a valid sequence file."""
    from localcider.backend.seqfileparser import SequenceFileParser
    from localcider.sequenceParameters import SequenceParameters as SP
    out = []
    if real is None:
        install_fs()
        _files["mem"] = data
        name = "mem"
    else:
        name = real
    for route, f in (("parseSeqFile", lambda: SequenceFileParser().parseSeqFile(name, silent=True)),
                     ("SequenceParameters(sequenceFile)", lambda: SP(sequenceFile=name).get_sequence())):
        try:
            got = f()
        except Exception:  # noqa
            continue
        out.append({"key": "undecodable-file-accepted", "what": "%s accepted a file whose sequence lines hold the undecodable bytes %r "
                    "(%r) and produced %r" % (route, case["bad"], data[:60], got), "case": dict(case, data=data.hex())})
        break
    return out


def check_text(text, depth, case, real=None):
    """depth: 0 parser only, 1 + SequenceParameters(sequenceFile).get_sequence, 2 + full API vector."""
    from localcider.backend.seqfileparser import SequenceFileParser
    from localcider.sequenceParameters import SequenceParameters as SP
    out = []
    calls = 1

    def v(key, what, **kw):
        out.append({"key": key, "what": what, "case": dict(case, text=text, **kw)})
    verdict, exp, why = ref_parse(text)
    if real is None:
        install_fs()
        _files["mem"] = text
        name = "mem"
    else:
        name = real
    try:
        # the three ways of passing the documented `silent` flag (keyword, positional, default) - chosen by the text, all equivalent
        import zlib as _z
        style = _z.crc32(text.encode("utf-8", "surrogatepass")) % 3
        if style == 0:
            got = SequenceFileParser().parseSeqFile(name, silent=True)
        elif style == 1:
            got = SequenceFileParser().parseSeqFile(name, True)
        else:
            with core.quiet():
                got = SequenceFileParser().parseSeqFile(name)
        ok = True
    except Exception as e:  # noqa
        got, ok, err = None, False, e
    if verdict == DONTCARE:
        return out, verdict, calls
    if verdict == REJECT:
        if ok:
            v("malformed-file-accepted", "file %r parsed to %r but must be rejected (%s)" % (text, got, why), reason=why)
        elif depth >= 1:
            # the constructor route must reject it as well (and must not remember anything of it)
            calls += 1
            try:
                o_bad = SP(sequenceFile=name)
                v("malformed-file-accepted", "SequenceParameters(sequenceFile) accepted the malformed file %r as %r (%s)"
                  % (text, o_bad.get_sequence(), why), reason=why)
            except Exception:  # noqa
                pass
        return out, verdict, calls
    if not ok:
        v("valid-file-rejected", "file %r raised %r but must parse to %s" % (text, err, exp), expected=exp)
        return out, verdict, calls
    if got != exp:
        v("wrong-residues", "file %r parsed to %r, expected %r" % (text, got, exp), expected=exp, observed=got)
        return out, verdict, calls
    if depth >= 1:
        calls += 2
        try:
            o = SP(sequenceFile=name)
            s = o.get_sequence()
        except Exception as e:  # noqa
            v("object-from-file", "SequenceParameters(sequenceFile) raised %r for file %r" % (e, text))
            return out, verdict, calls
        try:
            from localcider.sequencePermutants import SequencePermutants
            sp = SequencePermutants(sequenceFile=name)
            calls += 1
            if sp.SeqObj.seq != exp:
                v("object-from-file", "SequencePermutants(sequenceFile).SeqObj.seq=%r for file %r, expected %r" % (sp.SeqObj.seq, text, exp))
        except Exception as e:  # noqa
            v("object-from-file", "SequencePermutants(sequenceFile) raised %r for file %r" % (e, text))
        if s != exp or len(o) != len(exp):
            v("object-from-file", "SequenceParameters(sequenceFile).get_sequence()=%r for file %r, expected %r" % (s, text, exp))
        elif depth >= 2:
            a = api_vector(o)
            calls += len(a)
            d = diff(a, ref_vec(exp))
            if d:
                v("object-analysis-differs:" + d[0], "file %r: %s = %r but SequenceParameters(%r) gives %r" % (text, d[0], d[1], exp, d[2]))
    return out, verdict, calls


def layouts(seq):
    """Structured layouts of one sequence: header x line length x spacing x numbering x blanks x trailing newline x stop."""
    for header in (None, ">sp|P12345|TEST some protein OS=Homo sapiens", "> x"):
        for ll in list(range(1, len(seq) + 2)):
            for spacing in (False, True):
                for numbering in (None, "left", "right"):
                    for blanks in (False, True):
                        for trail in ("", "\n", "\n\n"):
                            for stop in ("", "*", "\n*"):
                                lines = []
                                if header:
                                    lines.append(header)
                                pos = 1
                                for i in range(0, len(seq), ll):
                                    chunk = seq[i:i + ll]
                                    if spacing:
                                        chunk = " ".join(chunk[j:j + 10] for j in range(0, len(chunk), 10))
                                    if numbering == "left":
                                        chunk = "%6d %s" % (pos, chunk)
                                    elif numbering == "right":
                                        chunk = "%s %d" % (chunk, pos + len(seq[i:i + ll]) - 1)
                                    pos += ll
                                    lines.append(chunk)
                                    if blanks and (i // ll) % 3 == 1:
                                        lines.append("")
                                        lines.append("   ")
                                yield "\n".join(lines) + stop + trail, dict(header=bool(header), ll=ll, spacing=spacing,
                                                                          numbering=numbering, blanks=blanks, stop=stop)


def check_case(case):
    k = case["kind"]
    if k == "text" and "long" in case:
        a = shard(("longfiles", (case["long"],)))
        return a.violations
    if k == "text":
        v, verdict, calls = check_text(case["text"], case.get("depth", 2), case)
        return v
    if k == "paths":
        return [x for x in shard(("paths",)).violations if x["case"].get("name") == case.get("name")]
    if k == "bytes":
        data = bytes.fromhex(case["data"])
        if case.get("real"):
            d = tempfile.mkdtemp(prefix="vmc_c14_")
            try:
                p = os.path.join(d, "seq.fasta")
                with open(p, "wb") as f:
                    f.write(data)
                import localcider.backend.seqfileparser as P
                if isinstance(getattr(P, "open", None), _FS):
                    del P.open
                return check_bytes(data, case, real=p)
            finally:
                shutil.rmtree(d, True)
        return check_bytes(data, case)
    if k == "realfile":
        d = tempfile.mkdtemp(prefix="vmc_c14_")
        try:
            p = os.path.join(d, "seq.fasta")
            with open(p, "w", newline="") as f:
                f.write(case["text"])
            v, verdict, calls = check_text(case["text"], 2, case, real=p)
        finally:
            shutil.rmtree(d, True)
        return v
    raise KeyError(k)


def shard(s):
    acc = core.Acc()
    kind = s[0]

    def consume(text, depth, case, real=None):
        with core.istate(text[:200]):
            v, verdict, calls = check_text(text, depth, case, real)
        acc.states += 1
        acc.traces += 1
        acc.transitions += calls
        acc.evaluations += 1
        acc.bump(verdict)
        acc.out(verdict)
        if verdict == DONTCARE:
            acc.dont_care += 1
        for x in v:
            acc.viol(x["key"], x["what"], x["case"])
        return verdict
    if kind == "words":
        _, syms, L, pre, d2, d1 = s
        for t in itertools.product(syms, repeat=L - len(pre)):
            text = "".join(pre) + "".join(t)
            depth = 2 if L <= d2 else (1 if L <= d1 else 0)
            verdict = consume(text, depth, {"kind": "text", "depth": depth})
            if verdict == ACCEPT and ("\n" in text.strip("\n") or " " in text or "1" in text or "*" in text or ">" in text):
                acc.nontrivial += 1
                if L >= 5 and ">" in text and "*" in text:
                    acc.sample({"file": text, "parses_to": ref_parse(text)[1]}, cap=1)
    elif kind == "layouts":
        _, seq, lo, hi = s
        for i, (text, meta) in enumerate(layouts(seq)):
            if lo <= i < hi:
                verdict = consume(text, 1 if i % 7 else 2, {"kind": "text", "depth": 2, "layout": meta})
                if verdict == ACCEPT:
                    acc.nontrivial += 1
                if i % 997 == 0:
                    acc.sample({"file": text, "layout": meta}, cap=1)
    elif kind == "corrupt":
        _, seq, which = s
        texts = [t for i, (t, m) in enumerate(layouts(seq)) if i % 5003 == which]
        for text in texts:
            for pos in range(len(text)):
                for c in CORRUPT:
                    if c != text[pos]:
                        consume(text[:pos] + c + text[pos + 1:], 0, {"kind": "text", "depth": 0, "corrupted_at": pos})
            for pos in range(len(text) + 1):
                for c in (">", "*", "\n>x\n", "b", "1", " "):
                    consume(text[:pos] + c + text[pos:], 0, {"kind": "text", "depth": 0, "inserted_at": pos})
    elif kind == "alphabets":
        # the residues a valid file may be made of: every homopolymer, every alternating pair of residues, and words over
        # sub-alphabets that look like something else (nucleotides, hex digits, roman numerals), 30 residues each, with and
        # without header, through the parser and the SequenceParameters(sequenceFile=) constructor
        fam = [a * 30 for a in T.AA] + [(a + b) * 15 for i, a in enumerate(T.AA) for b in T.AA[i + 1:]]
        fam += [("ACGT" * 8)[:30], ("ACGTN" * 6)[:30], ("GATTACA" * 5)[:30], ("ACDEF" * 6)[:30], ("MDCLIV" * 5)[:30], ("NNNNNNNNNA" * 3)[:30],
                "ACGT" * 5, "ACGTACGTACGTACGTACG", "A" * 19, "A" * 20, "A" * 21, ("TGCA" * 64)[:250]]
        for i, seq in enumerate(fam):
            text = (">seq %d\n" % i if i % 2 else "") + "\n".join(seq[j:j + 60] for j in range(0, len(seq), 60)) + "\n"
            verdict = consume(text, 1, {"kind": "text", "depth": 1})
            if verdict == ACCEPT:
                acc.nontrivial += 1
    elif kind == "headers":
        # what the header line says is free text: a family of header styles (database prefixes, PIR-like codes, punctuation,
        # numbers, residue-like words) over the same two-line record; and a sequence whose 3-residue groups all read as
        # three-letter amino-acid codes, written with every group size 1..12 per blank-separated token
        seq = SEQ61[:50]
        heads = [">sp|P1|X_HUMAN", ">gi|12345|ref|NP_1.1|", ">P1;CRAB_ANAPL", ">F1;x", ">XX;anything", ">DL;d", ">N1;n", ">RC;r", ">1", ">;", ">>", "> ",
                 ">MKVLA", ">ALA GLY SER", ">seq 1 len=50", ">a*b", ">tab\there", ">P1", ">p1;lower", ">ACGT", ">*", ">12 KA"]
        for h in heads:
            for body in (seq[:30] + "\n" + seq[30:] + "\n", seq + "\n", "\n" + seq[:10] + " " + seq[10:20] + "\n" + seq[20:] + "*\n"):
                verdict = consume(h + "\n" + body, 1, {"kind": "text", "depth": 1})
                if verdict == ACCEPT:
                    acc.nontrivial += 1
        codes = ["MET", "SER", "THR", "LYS", "ALA", "GLY", "VAL", "HIS", "ASP", "ASN", "ARG", "GLN", "ILE", "PHE", "TRP", "TYR", "CYS", "MET", "LYS", "SER"]
        wordseq = "".join(codes)
        for g in range(1, 13):
            toks = [wordseq[i:i + g] for i in range(0, len(wordseq), g)]
            for per_line in (1, 2, 4, 100):
                lines = [" ".join(toks[i:i + per_line]) for i in range(0, len(toks), per_line)]
                for head in ("", ">words\n"):
                    verdict = consume(head + "\n".join(lines) + "\n", 1, {"kind": "text", "depth": 1})
                    if verdict == ACCEPT:
                        acc.nontrivial += 1
        for text in ("GLU LYS\n", "ALA GLU\n", ">h\nGLX ASX\n", "PRO GLN GLU\n"):      # tokens with a non-residue letter (U, X, O ...): rejected / judged
            consume(text, 1, {"kind": "text", "depth": 1})
    elif kind == "paths":
        # how the file is NAMED: the same file through ./, //, dir/../ and a directory symlink followed by .. (which the operating
        # system resolves through the link), relative and absolute, with a decoy of the same name where a textual clean-up would land
        from localcider.backend.seqfileparser import SequenceFileParser
        from localcider.sequenceParameters import SequenceParameters as SP
        from localcider.sequencePermutants import SequencePermutants
        import localcider.backend.seqfileparser as P
        if isinstance(getattr(P, "open", None), _FS):
            del P.open
        d = tempfile.mkdtemp(prefix="vmc_c14_")
        old = os.getcwd()
        try:
            os.makedirs(os.path.join(d, "a", "sub"))
            os.makedirs(os.path.join(d, "b"))
            for rel, text in (("a/p.fasta", ">x\nAAAAKK\n"), ("b/p.fasta", ">y\nWWWW\n"), ("p.fasta", ">decoy\nCCCCC\n"), ("a/sub/p.fasta", "GGGG\n")):
                with open(os.path.join(d, rel), "w") as f:
                    f.write(text)
            os.symlink(os.path.join(d, "a", "sub"), os.path.join(d, "link"))
            os.symlink(os.path.join(d, "b"), os.path.join(d, "a", "sub", "up"))
            os.chdir(d)
            spellings = [("a/p.fasta", "AAAAKK"), ("./a/p.fasta", "AAAAKK"), ("a//p.fasta", "AAAAKK"), ("a/./p.fasta", "AAAAKK"), ("b/../a/p.fasta", "AAAAKK"),
                         ("link/../p.fasta", "AAAAKK"), (os.path.join(d, "link", "..", "p.fasta"), "AAAAKK"), ("link/p.fasta", "GGGG"),
                         ("link/up/p.fasta", "WWWW"), ("link/up/../p.fasta", "CCCCC"), (os.path.join(d, "a", "p.fasta"), "AAAAKK"), ("a/sub/../../b/p.fasta", "WWWW")]
            for name, want in spellings:
                case = {"kind": "paths", "name": name.replace(d, "<tmp>")}
                for route, f_ in (("parseSeqFile", lambda: SequenceFileParser().parseSeqFile(name, silent=True)),
                                  ("SequenceParameters(sequenceFile)", lambda: SP(sequenceFile=name).get_sequence()),
                                  ("SequencePermutants(sequenceFile)", lambda: "".join(sorted(SequencePermutants(sequenceFile=name).SeqObj.seq)))):
                    acc.states += 1
                    acc.traces += 1
                    acc.transitions += 1
                    acc.evaluations += 1
                    acc.nontrivial += 1
                    acc.out(ACCEPT)
                    try:
                        got = f_()
                    except Exception as e:  # noqa
                        acc.viol("file-name-spelling", "%s(%r) raised %r although the operating system resolves the name to a valid file" % (route, case["name"], e), case)
                        continue
                    exp = want if not route.startswith("SequencePermutants") else "".join(sorted(want))
                    if got != exp:
                        acc.viol("file-name-spelling", "%s(%r) read %r; the file the operating system resolves that name to holds %r"
                                 % (route, case["name"], got, exp), case)
        finally:
            os.chdir(old)
            shutil.rmtree(d, True)
    elif kind == "bytes":
        d = tempfile.mkdtemp(prefix="vmc_c14_")
        try:
            for host in (b"AKE\nDST\n", b">h one\nAKE\nDST\n", b">sp|P1|X\n" + SEQ23.encode() + b"\n", b"ake dst\r\n"):
                start = host.index(b"\n") + 1 if host.startswith(b">") else 0
                for bad in BADBYTES:
                    for pos in range(start, len(host) + 1):
                        for data in (host[:pos] + bad + host[pos:], host[:pos] + bad + host[pos + 1:]):
                            for real in (False, True):
                                if real and (pos - start) % 4:
                                    continue
                                case = {"kind": "bytes", "bad": repr(bad), "pos": pos, "real": real}
                                p = None
                                import localcider.backend.seqfileparser as P
                                if real:
                                    p = os.path.join(d, "b.fasta")
                                    with open(p, "wb") as f:
                                        f.write(data)
                                    if isinstance(getattr(P, "open", None), _FS):
                                        del P.open
                                v = check_bytes(data, case, real=p)
                                acc.states += 1
                                acc.traces += 1
                                acc.transitions += 2
                                acc.evaluations += 1
                                acc.out(REJECT)
                                for x in v:
                                    acc.viol(x["key"], x["what"], x["case"])
        finally:
            shutil.rmtree(d, True)
    elif kind == "bigtext":
        # files whose TEXT exceeds 64 KiB / 128 KiB although the sequence is short (the parser is quadratic in the residues, not in
        # the text): a very long description line, records padded with blanks to 200 columns, thousands of blank lines, CRLF
        base = "MKVLAAGIDESTYPWFRNQHC"
        seq = (base * 200)[:3000]
        recs = [seq[i:i + 10] for i in range(0, len(seq), 10)]
        for size in s[1]:
            pad = size // len(recs) + 1
            texts = [">" + "d" * size + "\n" + seq[:300] + "\n",
                     ">h\n" + "\n".join(r + " " * pad for r in recs) + "\n",
                     ">h\n" + ("\n" * (size // len(recs) + 1)).join(recs) + "\n",
                     ">h\r\n" + "\r\n".join(r + "\t" * pad for r in recs) + "*\r\n",
                     "\n".join(" " * pad + r for r in recs) + "\n" + "b" + "\n"]
            for text in texts:
                verdict = consume(text, 1, {"kind": "text", "depth": 1, "bigtext": size})
                if verdict == ACCEPT:
                    acc.nontrivial += 1
    elif kind == "longfiles":
        import random as _r
        base = "MKVLAAGIDESTYPWFRNQHC"
        for n in s[1]:
            seq = (base * (n // len(base) + 1))[:n]
            for ll, numbered in ((60, False), (70, False), (60, True), (n, False)):
                lines = []
                for i in range(0, n, ll):
                    chunk = seq[i:i + ll]
                    if numbered:
                        chunk = "%9d %s" % (i + 1, " ".join(chunk[j:j + 10] for j in range(0, len(chunk), 10)))
                    lines.append(chunk)
                for tail in ("\n", "*\n", "\n>second\nAK\n", "\nAKb\n"):
                    text = ">long one\n" + "\n".join(lines) + tail
                    dep = 1 if (ll == 60 and not numbered and tail == "\n" and n <= 40000) else 0
                    verdict = consume(text, dep, {"kind": "text", "depth": dep, "long": n, "ll": ll, "numbered": numbered})
                    if verdict == ACCEPT:
                        acc.nontrivial += 1
    elif kind == "real":
        d = tempfile.mkdtemp(prefix="vmc_c14_")
        try:
            for text in s[1]:
                if "\r" in text:
                    consume(text, 2, {"kind": "text", "depth": 2})      # the same text through the in-memory open() as well
            for i, text in enumerate(s[1]):
                p = os.path.join(d, "f%d.txt" % i)
                with open(p, "w", newline="") as f:
                    f.write(text)
                import localcider.backend.seqfileparser as P
                if isinstance(getattr(P, "open", None), _FS):
                    del P.open
                verdict = consume(text, 2, {"kind": "realfile"}, real=p)
                if verdict == ACCEPT:
                    acc.nontrivial += 1
        finally:
            shutil.rmtree(d, True)
    return acc


def run(tier, seed, t0):
    if tier == "quick":
        syms, L, d2, d1 = SYMS8, 6, 4, 5
    else:
        syms, L, d2, d1 = SYMS9, 8, 4, 6
    shards = []
    for Lw in range(0, L + 1):
        k = min(3 if Lw >= 7 else 2, Lw)
        for pre in itertools.product(syms, repeat=k):
            shards.append(("words", syms, Lw, pre, d2, d1))
    shards.sort(key=lambda s: -s[2])
    for seq in ((SEQ23,) if tier == "quick" else (SEQ23, SEQ61)):
        n = sum(1 for _ in layouts(seq))
        step = 1500
        shards += [("layouts", seq, lo, lo + step) for lo in range(0, n, step)]
        shards += [("corrupt", seq, w) for w in (range(0, 3) if tier == "quick" else range(0, 12))]
    real = ["AKE\n", ">h\nAK E\n12 KA*\n", "AK\n>h\n>h2\nA", "A*K\n", ">only header\n", "ak\n", "MKE\r\nDST\r\n", "A\tK\n",
            SEQ23 + "\n", ">x\n" + SEQ61[:30] + "\n" + SEQ61[30:] + "*\n",
            # the three line-ending conventions of text files: LF, CRLF, bare CR - and mixtures
            "MKE\rDST\r", ">h one\rAKE\rDST\r", ">h\nAK\rE\n", ">h\r\nAKE\rDST\n\rWW*\r", "AKE\r\rDST", ">h\r>h2\rAKE\r", "AK\rb\r"]
    shards.append(("real", real))
    shards.append(("bytes",))
    shards.append(("alphabets",))
    shards.append(("paths",))
    shards.append(("headers",))
    shards.append(("bigtext", (70000, 140000) if tier == "quick" else (66000, 70000, 140000, 300000, 1100000)))
    for n_ in ((11000,) if tier == "quick" else (9000, 12000, 20000, 35000, 70000)):
        shards.insert(0, ("longfiles", (n_,)))
    acc = core.pmap(shard, shards)
    acc.merge(core.run_optimized(PROP, tier))      # the rejection battery once more under `python -O`
    return core.finish(
        PROP, tier, seed, acc, t0,
        rule="every file text of length 0..%d over %d symbols %r served through an in-memory open(), every structured layout "
             "(header x every line length x 10-residue spacing x numbering x blank lines x trailing newline x stop) of %s, every "
             "single-character substitution by %d characters and 6 insertions at every position of sampled-by-index layouts, and "
             "%d real temporary files; files of 11000 residues (thorough: to 70000) in four layouts with four endings; files whose text exceeds 64/128 KiB (thorough: 1 MiB) around a 3000-residue sequence (long description line, blank-padded records, thousands of blank lines, CRLF); the silent flag passed by keyword, positionally or left at its default; 22 header styles over three record layouts and a sequence spelt in three-letter-code words under every group size 1..12; twelve spellings of file names (./, //, dir/../, a directory symlink followed by .., absolute) through three routes with a decoy where a textual clean-up would land; 30-residue files over every single residue, every pair of residues and nucleotide-/numeral-like sub-alphabets (parser and constructor route); 13 byte strings that are not text in the read encoding (lone continuation / lead bytes, Latin-1 letters, surrogate, overlong) inserted and substituted at every position of the sequence lines of 4 host files (in-memory open honouring the encoding/errors arguments the library passes, and real binary files) must be rejected; reference parser (vmc/refmodel/parser.py) gives must-accept(seq) / must-reject / dont-care; "
             "accepted files up to length %d are also loaded with SequenceParameters(sequenceFile=...) and compared (sequence, and "
             "a 32-entry API vector up to length %d) with SequenceParameters(seq); non-trivial = accepted files that needed "
             "parsing (line breaks, spaces, digits, stop, header)" % (
                 L, len(syms), syms, "a 23-mer" if tier == "quick" else "a 23-mer and a 61-mer", len(CORRUPT), len(real), d1, d2),
        bounds={"L": L, "symbols": len(syms), "full_vector_upto": d2, "object_upto": d1},
        assumptions=["dont-care: tabs/CR/exotic whitespace, header after sequence text, no residues at all, digits after the final '*'"],
        min_outcomes=3)


def opt_shards(tier):
    return [(shard, ("words", SYMS8, 4, (), 4, 4)), (shard, ("corrupt", SEQ23, 0)), (shard, ("bytes",)),
            (shard, ("real", ["AKE\n", ">h\nAK E\n12 KA*\n", "AK\n>h\n>h2\nA", "A*K\n", "AK\rb\r"]))]


def replay(case):
    return check_case(case)
