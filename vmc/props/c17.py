"""C17 - shuffles and moves only rearrange, keep frozen sites, stay self-consistent; parent never altered.

E3: complete trees of random outcomes for the shuffles/swaps, deviation-bounded tapes for the two retry-loop
moves, and an E2 BFS over chains of moves on live objects.
"""
import itertools
from collections import deque

import numpy as np

from .. import core, spaces
from ..engines import choice as C
from ..engines import history as H
from ..refmodel import charge as R

PROP = "C17"
MENU_HALF = lambda tape: (0.25, 0.75)   # noqa  (the only float consumer in the moves is `random() < 0.5`)
SHUFFLES = ("full_shuffle", "swapRandChargeRes", "get_shuffled_sequence", "get_permutant")
RETRY = ("permute_block_swap", "permute_cluster_charges")
MUST_SUCCEED = SHUFFLES + ("swapRes",)


def S():
    import localcider.backend.sequence as m
    if not isinstance(m.rng, C.RngShim):
        C.install(m)
    return m


def as_frozen(F, kind):
    F = sorted(F)
    if kind == "npset":
        return set(np.int64(i) for i in F)
    if kind == "nparray":
        return np.array(F, dtype=np.int32)
    if kind == "nplist":
        return [np.int16(i) for i in F]
    return set(F) if kind == "set" else (list(F) if kind == "list" else tuple(F))


def do_move(move, parent, F, fk="set", ij=None):
    m = S()
    if move == "swapRes":
        return parent.swapRes(*ij)
    if move == "full_shuffle":
        return parent.full_shuffle(as_frozen(F, fk))
    if move == "swapRandChargeRes":
        return parent.swapRandChargeRes(set(F))
    if move == "get_shuffled_sequence":
        from localcider.sequenceParameters import SequenceParameters as SP
        w = SP(SeqObj=parent).get_shuffled_sequence(as_frozen(F, fk))
        _wrapper[id(w.SeqObj)] = w
        return w.SeqObj
    if move == "get_permutant":
        from localcider.sequencePermutants import SequencePermutants
        sp = SequencePermutants(parent.seq)
        w = sp.get_permutant()
        _wrapper[id(w.SeqObj)] = w
        return w.SeqObj
    if move == "permute_block_swap":
        return parent.permute_block_swap(set(F))
    if move == "permute_cluster_charges":
        return parent.permute_cluster_charges(set(F))
    raise KeyError(move)


_wrapper = {}      # id(backend object) -> the SequenceParameters object the public entry point returned (kept alive here)


def snap(o):
    return H.ser({k: v for k, v in vars(o).items() if k != "ComplexityObject"})


_dmax = {}


def fresh_dmax(seq):
    key = tuple(sorted(R.counts(R.pattern_of(seq))[:2])) + (len(seq),)
    r = _dmax.get(key)
    if r is None:
        r = _dmax[key] = S().Sequence(seq).deltaMax()
    return r


def judge(root_seq, parent_seq, parent_before, parent, child, F, move, case):
    out = []

    def v(key, what):
        out.append({"key": key, "what": what, "case": case})
    m = S()
    cs = getattr(child, "seq", None)
    if not isinstance(cs, str):
        v("child-not-sequence:" + move, "%s returned %r" % (move, child))
        return out
    if sorted(cs) != sorted(root_seq):
        v("not-a-rearrangement:" + move, "%s on %s (frozen %r) returned %s, not a rearrangement of the original residues"
          % (move, parent_seq, sorted(F), cs))
        return out
    moved = [i for i in F if 0 <= i < len(parent_seq) and cs[i] != parent_seq[i]]
    if moved and move != "get_permutant":
        v("frozen-position-changed:" + move, "%s on %s with frozen %r returned %s: frozen position(s) %r changed"
          % (move, parent_seq, sorted(F), cs, moved))
    w = _wrapper.pop(id(child), None)
    _wrapper.clear()
    if w is not None:
        # the public object that was actually returned describes the same sequence as its backend object
        try:
            obs = (w.get_sequence(), w.get_length(), len(w), w.get_countPos() + w.get_countNeg() + w.get_countNeut())
        except Exception as e:  # noqa
            obs = ("raised %r" % e,)
        if obs != (cs, len(cs), len(cs), len(cs)):
            v("returned-object-inconsistent:" + move, "%s on %s: the returned SequenceParameters reports (sequence, length, len, n+ + n- + n0) = %r "
              "but its residues are %s" % (move, parent_seq, obs, cs))
    fresh = m.Sequence(cs)
    if child.len != len(cs):
        v("child-len:" + move, "%s: child.len=%r for %s" % (move, child.len, cs))
    cp = np.asarray(child.chargePattern, dtype=float)
    fp = np.asarray(fresh.chargePattern, dtype=float)
    if cp.shape != fp.shape or not np.array_equal(cp, fp):
        v("child-charge-pattern:" + move, "%s on %s -> %s: charge bookkeeping %r, a fresh object has %r"
          % (move, parent_seq, cs, cp.tolist(), fp.tolist()))
    else:
        try:
            if (child.countPos(), child.countNeg(), child.countNeut()) != (fresh.countPos(), fresh.countNeg(), fresh.countNeut()):
                v("child-counts:" + move, "%s -> %s: counts differ from a fresh object" % (move, cs))
        except Exception as e:  # noqa
            v("child-counts:" + move, "%s -> %s: count getters raised %r" % (move, cs, e))
    if child.dmax != -1:
        fd = fresh_dmax(cs)
        if not core.close(child.dmax, fd, 1e-12, 1e-15):
            v("carried-dmax:" + move, "%s on %s -> %s: carried delta-max %r, a fresh object computes %r" % (move, parent_seq, cs, child.dmax, fd))
    if child is not parent and parent_before is not None and snap(parent) != parent_before:
        v("parent-altered:" + move, "%s altered the object it was called on (%s)" % (move, parent_seq))
    if case.get("light") and not out and (parent_seq, move, cs) not in _perm_seen:
        # the returned object asked for its delta-max PERMUTANT (C03's clause, on a derived object): once per (parent, move, child)
        _perm_seen.add((parent_seq, move, cs))
        if len(_perm_seen) > 300000:
            _perm_seen.clear()
        try:
            res = child.deltaMax(returnSeqDeltaMax=True)
            if not (isinstance(res, tuple) and len(res) == 2 and isinstance(res[1], str) and sorted(res[1]) == sorted(cs)):
                v("child-deltamax-permutant:" + move, "%s on %s -> %s: deltaMax(returnSeqDeltaMax=True) of the returned object gives %r, "
                  "not (value, rearrangement of its residues)" % (move, parent_seq, cs, res if not hasattr(res, "__len__") or len(res) != 2
                                                                  else (res[0], getattr(res[1], "tolist", lambda: res[1])())))
            else:
                fd = fresh_dmax(cs)
                dd = m.Sequence(res[1]).delta()
                if not core.close(res[0], fd, 1e-12, 1e-15) or not core.close(dd, res[0], 1e-12, 1e-15):
                    v("child-deltamax-permutant:" + move, "%s on %s -> %s: deltaMax(True) of the returned object = (%r, %s); a fresh object's "
                      "delta-max is %r and delta(%s) = %r" % (move, parent_seq, cs, res[0], res[1], fd, res[1], dd))
        except Exception as e:  # noqa
            v("child-deltamax-permutant:" + move, "%s on %s -> %s: deltaMax(returnSeqDeltaMax=True) of the returned object raised %r"
              % (move, parent_seq, cs, e))
    if case.get("light") and not out:
        try:
            lc, lf = light(child), light(fresh)
            if lc != lf:
                v("child-analysis-differs:" + move, "%s on %s -> %s: (SCD, delta, FCR, NCPR, n+, n-, hydropathy) of the returned object %r, "
                  "of a fresh object %r" % (move, parent_seq, cs, lc, lf))
        except Exception as e:  # noqa
            v("child-analysis-differs:" + move, "%s -> %s: analyses of the returned object raised %r" % (move, cs, e))
    return out


_perm_seen = set()


def make_parent(seq, cached):
    p = S().Sequence(seq)
    if cached:
        # warm everything a parent could have memoised before it is asked for a child
        p.kappa()
        p.deltaMax()
        p.sequence_charge_decoration()
        p.delta()
        p.FCR()
        p.NCPR()
        p.meanHydropathy()
    return p


def light(o):
    return (round(float(o.sequence_charge_decoration()), 12), round(float(o.delta()), 12), o.FCR(), o.NCPR(), o.countPos(), o.countNeg(),
            round(float(o.meanHydropathy()), 12))


_NVIOL = [0]
CAP2 = 6000     # scenario trees (chains, two moves, shared frozen set) close well below this on the unchanged code


def _capped(gen, acc):
    """Pass executions through; a tree that reaches the cap is reported as capped (not exhaustive), never as a violation."""
    n = 0
    for item in gen:
        n += 1
        yield item
    if n >= CAP2:
        acc.capped += 1
        acc.bump("scenario_trees_cut_at_%d_executions" % CAP2)


class _Counter:
    def __init__(self, limit):
        self.limit = limit
        self.n = 0


# ------------------------------------------------------------------------------------------------ complete trees
def run_complete(seq, cached, move, F, fk, acc, maxleaves=None):
    """All outcomes of the random draws of one (sequence, frozen, move)."""
    m = S()
    orig_init = m.Sequence.__init__
    ctr = _Counter(6)      # the unchanged moves construct at most 3 sequence objects; more means a retry loop: cut (makes waiting visible)

    def counting_init(self, *a, **k):
        ctr.n += 1
        if ctr.n > ctr.limit:
            raise C.Truncated("retry bound: more than %d sequence objects constructed inside one move" % ctr.limit)
        return orig_init(self, *a, **k)

    def run(tape):
        parent = make_parent(seq, cached)
        before = snap(parent)
        ctr.n = 0
        m.Sequence.__init__ = counting_init
        try:
            with core.istate(seq + move + fk):       # the interpreter state around the move is a function of (sequence, move, container)
                child = do_move(move, parent, F, fk)
        except C.Truncated as e:
            return ("truncated", str(e), parent, before)
        except C.Divergence:
            raise
        except Exception as e:  # noqa
            return ("raised", e, parent, before)
        finally:
            m.Sequence.__init__ = orig_init
        return ("ok", child, parent, before)
    if _NVIOL[0] > 30:
        acc.bump("trees_skipped_after_30_violating_trees")     # the check has failed many times over: no point in going on
        return 0
    n = 0
    CAPX = 5000      # the unchanged code needs at most 720 executions per tree; a tree that does not close is cut and reported as capped
    for tape, res in C.explore(run, "complete", horizon=60, float_menu=MENU_HALF, max_execs=CAPX):
        n += 1
        if n == CAPX:
            acc.bump("complete_trees_cut_at_%d_executions" % CAPX)
            acc.capped += 1
        acc.traces += 1
        acc.transitions += 1
        acc.capped += tape.capped
        case = {"kind": "move", "seq": seq, "cached": cached, "move": move, "frozen": sorted(F), "frozen_type": fk,
                "tape": tape.choices(), "mode": "complete", "light": bool(cached and fk == "set")}
        tag, val, parent, before = res
        if tag == "truncated":
            acc.truncated += 1
            acc.bump("complete_tree_executions_cut_by_retry_bound")
            continue
        if tag == "raised":
            acc.out((move, "raised", type(val).__name__))
            if move in MUST_SUCCEED:
                acc.viol("raises:" + move, "%s on %s (frozen %r as %s) raised %r" % (move, seq, sorted(F), fk, val), case)
            continue
        acc.evaluations += 1
        acc.out((move, val.seq))
        bad = judge(seq, seq, before, parent, val, F, move, case)
        for x in bad:
            acc.viol(x["key"], x["what"], x["case"])
        if bad:
            _NVIOL[0] += 1
            break              # one counterexample per tree is enough; the rest of this tree is not explored
        if n <= 2 and len(seq) >= 4 and val.seq != seq:
            acc.sample({"seq": seq, "move": move, "frozen": sorted(F), "tape": tape.choices(), "child": val.seq}, cap=3)
    return n


def shard_complete(s):
    acc = core.Acc()
    kind, L, pre, fkinds = s
    S()
    for pat in spaces.shard_words(R.SYM, L, pre):
        seq = R.spell_rotating(pat, 0)
        w0 = H.digest(H.package_state())
        acc.states += 1
        if len(set(pat)) > 1:
            acc.nontrivial += 1
        for cached in (False, True):
            # deterministic pair swap: all (i, j), positions also counted from the end (ordinary Python indices -L..-1)
            for i in range(-L, L):
                for j in range(-L, L):
                    parent = make_parent(seq, cached)
                    before = snap(parent)
                    case = {"kind": "move", "seq": seq, "cached": cached, "move": "swapRes", "ij": [i, j], "frozen": [],
                            "light": bool(cached)}
                    acc.transitions += 1
                    acc.traces += 1
                    try:
                        child = parent.swapRes(i, j)
                    except Exception as e:  # noqa
                        acc.viol("raises:swapRes", "swapRes(%d,%d) on %s raised %r" % (i, j, seq, e), case)
                        continue
                    acc.evaluations += 1
                    exp = list(seq)
                    exp[i], exp[j] = exp[j], exp[i]
                    if getattr(child, "seq", None) != "".join(exp):
                        acc.viol("swapRes-result", "swapRes(%d,%d) on %s returned %r" % (i, j, seq, getattr(child, "seq", None)), case)
                    for x in judge(seq, seq, before, parent, child, set(), "swapRes", case):
                        acc.viol(x["key"], x["what"], x["case"])
            for r in range(L + 1):
                for F in itertools.combinations(range(L), r):
                    F = set(F)
                    for move in SHUFFLES:
                        if move == "get_permutant" and F:
                            continue
                        for fk in (fkinds if move in ("full_shuffle", "get_shuffled_sequence") else ("set",)):
                            if fk.startswith("np") and (len(F) != 1 or cached):
                                continue       # numpy-integer collections: the single-site frozen sets, uncached parents
                            if fk in ("list", "tuple") and (len(F) > 2 or cached) and L >= 5:
                                continue       # lists/tuples: frozen sets of up to two sites on uncached parents (sets: all)
                            run_complete(seq, cached, move, F, fk, acc)
            # frozen sets with members OUTSIDE the sequence (exactly len, len+1, -1, far away): ignored, the move still succeeds
            if L >= 2 and not cached:
                for F in ({L}, {0, L}, {L + 1}, {-1}, {L - 1, L, L + 1, -1, 10 ** 6}):
                    for move in ("full_shuffle", "get_shuffled_sequence", "swapRandChargeRes"):
                        run_complete(seq, cached, move, set(F), "set", acc)
        if H.digest(H.package_state()) != w0:
            acc.viol("world-changed", "package state (defaults/globals) changed while running the moves on %s" % seq,
                     {"kind": "world", "seq": seq})
    return acc


# ------------------------------------------------------------------------------------------------ retry-loop moves
def run_bounded(seq, cached, move, F, seed, bound, retry, acc, stream):
    m = S()
    orig_init = m.Sequence.__init__
    ctr = _Counter(retry)

    def counting_init(self, *a, **k):
        ctr.n += 1
        if ctr.n > ctr.limit:
            raise C.Truncated("retry bound: more than %d candidate children" % ctr.limit)
        return orig_init(self, *a, **k)

    def run(tape):
        parent = make_parent(seq, cached)
        before = snap(parent)
        ctr.n = 0
        m.Sequence.__init__ = counting_init
        try:
            child = do_move(move, parent, F)
        except C.Truncated as e:
            return ("truncated", str(e), parent, before)
        except C.Divergence:
            raise
        except Exception as e:  # noqa
            return ("raised", e, parent, before)
        finally:
            m.Sequence.__init__ = orig_init
        return ("ok", child, parent, before)
    n = 0
    for tape, res in C.explore(run, "bounded", bound=bound, seed=seed, horizon=60, float_menu=MENU_HALF, stream=stream):
        n += 1
        acc.traces += 1
        acc.transitions += 1
        acc.capped += tape.capped
        case = {"kind": "move", "seq": seq, "cached": cached, "move": move, "frozen": sorted(F), "tape": tape.choices(),
                "mode": "bounded", "retry": retry}
        tag, val, parent, before = res
        if tag == "truncated":
            acc.truncated += 1
            continue
        if tag == "raised":
            acc.bump("refused:" + move)
            acc.out((move, "refused", type(val).__name__))
            if snap(parent) != before:
                acc.viol("parent-altered:" + move, "%s altered the object it was called on (%s) before refusing" % (move, seq), case)
            continue
        acc.evaluations += 1
        acc.bump("completed:" + move)
        acc.out((move, val.seq))
        for x in judge(seq, seq, before, parent, val, F, move, case):
            acc.viol(x["key"], x["what"], x["case"])
        if n <= 1 and val.seq != seq:
            acc.sample({"seq": seq, "move": move, "frozen": sorted(F), "tape": tape.choices(), "child": val.seq}, cap=3)
    return n


def shard_bounded(s):
    acc = core.Acc()
    pats, frozens, seeds, bound, retry = s
    S()
    for pat in pats:
        seq = R.spell_rotating(pat, 0)
        acc.states += 1
        if len(set(pat)) > 1:
            acc.nontrivial += 1
        for F in frozens:
            F = set(i for i in F if i < len(seq))
            for move in RETRY:
                for si, seed in enumerate(seeds):
                    run_bounded(seq, False, move, F, seed, bound, retry, acc, stream=si)
                run_bounded(seq, True, move, F, seeds[0], min(bound, 1), retry, acc, stream=99)
    return acc


# ------------------------------------------------------------------------------------------------ chains (E2)
def chain_ops(L):
    ops = [("swapRes", (i, j)) for i in range(L) for j in range(L) if i < j]
    ops += [("full_shuffle", None), ("swapRandChargeRes", None)]
    return ops


def replay_chain(root, cached, hist):
    """hist = [(move, ij, tape choices)] applied to live objects."""
    obj = make_parent(root, cached)
    for move, ij, choices in hist:
        t = C.Tape(choices, None, 60, MENU_HALF)
        C.ScriptedRandom.tape = t
        try:
            obj = do_move(move, obj, set(), "set", ij)
        finally:
            C.ScriptedRandom.tape = None
    return obj


def explore_chain(root, cached, acc):
    S()
    L = len(root)
    seen = {}
    start = make_parent(root, cached)
    key0 = (start.seq, start.dmax != -1)
    seen[key0] = []
    frontier = deque([key0])
    while frontier:
        st = frontier.popleft()
        hist = seen[st]
        for move, ij in chain_ops(L):
            def run(tape):
                parent = replay_chain(root, cached, hist)
                before = snap(parent)
                C.ScriptedRandom.tape = tape
                try:
                    child = do_move(move, parent, set(), "set", ij)
                except C.Truncated as e:
                    return ("truncated", str(e), parent, before)
                except Exception as e:  # noqa
                    return ("raised", e, parent, before)
                return ("ok", child, parent, before)
            for tape, res in _capped(C.explore(run, "complete", horizon=60, float_menu=MENU_HALF, max_execs=CAP2), acc):
                acc.transitions += 1
                acc.traces += 1
                tag, val, parent, before = res
                case = {"kind": "chain", "root": root, "cached": cached,
                        "history": [[mv, list(x) if x else None, ch] for mv, x, ch in hist],
                        "move": move, "ij": list(ij) if ij else None, "tape": tape.choices()}
                if tag == "truncated":
                    acc.truncated += 1
                    continue
                if tag == "raised":
                    acc.viol("raises:" + move, "chain from %s: %s on %s raised %r" % (root, move, st[0], val), case)
                    continue
                acc.evaluations += 1
                for x in judge(root, st[0], before, parent, val, set(), move, case):
                    acc.viol(x["key"] + "(chain)", x["what"], x["case"])
                k = (val.seq, val.dmax != -1)
                if k not in seen:
                    seen[k] = hist + [(move, ij, tape.choices())]
                    frontier.append(k)
    acc.states += len(seen)
    acc.nontrivial += len(seen) - 1
    acc.out(("chain", root, len(seen)))
    acc.sample({"chain_root": root, "cached": cached, "states": len(seen),
                "deepest_history": [(m_, ij_) for m_, ij_, _ in max(seen.values(), key=len)]}, cap=2)


def shard_twostep(s):
    """Two moves in a row with DIFFERENT frozen sets, complete trees of both moves' draws (one tape spans both)."""
    acc = core.Acc()
    S()
    roots, combos = s
    for root in roots:
        L = len(root)
        subsets = [()] + [(i,) for i in range(L)]
        acc.states += 1
        acc.nontrivial += 1
        for m1, m2 in combos:
            for F1 in subsets:
                for F2 in subsets:
                    if "full_shuffle" in (m1, m2) and not (F1 if m1 == "full_shuffle" else F2):
                        continue        # keep the shuffle tree small: shuffles here always have one frozen site
                    def run(tape):
                        p = make_parent(root, False)
                        c1 = do_move(m1, p, set(F1))
                        b1 = snap(c1)
                        c2 = do_move(m2, c1, set(F2))
                        return c1, b1, c2
                    for tape, res in _capped(C.explore(lambda t: _guard(run, t), "complete", horizon=60, float_menu=MENU_HALF, max_execs=CAP2), acc):
                        acc.transitions += 1
                        acc.traces += 1
                        case = {"kind": "twostep", "root": root, "moves": [m1, m2], "frozen": [list(F1), list(F2)], "tape": tape.choices()}
                        if res[0] != "ok":
                            if res[0] == "raised":
                                acc.viol("raises:" + m2, "%s(%r) then %s(%r) on %s raised %r" % (m1, F1, m2, F2, root, res[1]), case)
                            else:
                                acc.truncated += 1
                            continue
                        c1, b1, c2 = res[1]
                        acc.evaluations += 1
                        acc.out(("2step", c2.seq))
                        for x in judge(root, c1.seq, b1, c1, c2, set(F2), m2, case):
                            acc.viol(x["key"] + "(second move)", x["what"], x["case"])
    return acc


def _guard(run, tape):
    try:
        return ("ok", run(tape))
    except C.Truncated as e:
        return ("truncated", str(e))
    except C.Divergence:
        raise
    except Exception as e:  # noqa
        return ("raised", e)


def shard_sharedfrozen(s):
    """One frozen-set OBJECT handed to a move on a short sequence (some positions beyond its end) and then, the same object,
    to a move on a longer sequence: the second result must honour every position the caller put into the set."""
    acc = core.Acc()
    S()
    for short, long_, F0 in s:
        for move in ("full_shuffle", "get_shuffled_sequence", "swapRandChargeRes"):
            def run(tape):
                F = set(F0)
                p1 = make_parent(short, False)
                if move == "get_shuffled_sequence":
                    from localcider.sequenceParameters import SequenceParameters as SP
                    SP(SeqObj=p1).get_shuffled_sequence(F)
                else:
                    getattr(p1, move)(F)
                p2 = make_parent(long_, False)
                b2 = snap(p2)
                if move == "get_shuffled_sequence":
                    from localcider.sequenceParameters import SequenceParameters as SP
                    c = SP(SeqObj=p2).get_shuffled_sequence(F).SeqObj
                else:
                    c = getattr(p2, move)(F)
                return p2, b2, c, sorted(F)
            for tape, res in _capped(C.explore(lambda t: _guard(run, t), "complete", horizon=60, float_menu=MENU_HALF, max_execs=CAP2), acc):
                acc.transitions += 1
                acc.traces += 1
                acc.states += 1
                case = {"kind": "sharedfrozen", "short": short, "long": long_, "frozen": sorted(F0), "move": move, "tape": tape.choices()}
                if res[0] != "ok":
                    if res[0] == "raised":
                        acc.viol("raises:" + move, "%s with a frozen set reaching beyond the sequence raised %r" % (move, res[1]), case)
                    continue
                p2, b2, c, Fafter = res[1]
                acc.evaluations += 1
                acc.out(("shared", c.seq))
                for x in judge(long_, long_, b2, p2, c, set(F0), move, case):
                    acc.viol(x["key"] + "(frozen set reused)", x["what"] + " [the caller's set is now %r]" % (Fafter,), x["case"])
    return acc


def shard_chain(s):
    acc = core.Acc()
    for root, cached in s:
        explore_chain(root, cached, acc)
    return acc


def shard(s):
    return {"complete": shard_complete, "bounded": shard_bounded, "chain": shard_chain, "twostep": shard_twostep,
            "sharedfrozen": shard_sharedfrozen}[s[0]](s[1])


# ------------------------------------------------------------------------------------------------
def replay(case):
    S()
    _perm_seen.clear()
    out = []
    if case["kind"] == "world":
        a = core.Acc()
        shard_complete(("x", len(case["seq"]), R.pattern_of(case["seq"]), ("set",)))
        return a.violations
    if case["kind"] in ("twostep", "sharedfrozen"):
        a = shard_twostep(([case["root"]], [tuple(case["moves"])])) if case["kind"] == "twostep" else \
            shard_sharedfrozen([(case["short"], case["long"], tuple(case["frozen"]))])
        return a.violations
    if case["kind"] == "chain":
        hist = [(mv, tuple(x) if x else None, ch) for mv, x, ch in case["history"]]
        parent = replay_chain(case["root"], case["cached"], hist)
        root = case["root"]
        pseq = parent.seq
        F = set()
        ij = tuple(case["ij"]) if case.get("ij") else None
    else:
        parent = make_parent(case["seq"], case["cached"])
        root = pseq = case["seq"]
        F = set(case.get("frozen", []))
        ij = tuple(case["ij"]) if case.get("ij") else None
    before = snap(parent)
    t = C.Tape(case.get("tape", []), None, 60, MENU_HALF)
    C.ScriptedRandom.tape = t
    try:
        child = do_move(case["move"], parent, F, case.get("frozen_type", "set"), ij)
    except C.Truncated:
        return out
    except Exception as e:  # noqa
        if case["move"] in MUST_SUCCEED:
            out.append({"key": "raises:" + case["move"], "what": "%s on %s raised %r" % (case["move"], pseq, e), "case": case})
        return out
    finally:
        C.ScriptedRandom.tape = None
    return judge(root, pseq, before, parent, child, F, case["move"], case)


def run(tier, seed, t0):
    shards = []
    if tier == "quick":
        Lc, fkinds = 5, ("set", "list", "npset", "nparray")
        bpats = list(spaces.shard_words(R.SYM, 6, ""))
        frozens = [(), (0,), (2, 3)]
        seeds, bound, retry = [seed * 7 + 1, seed * 7 + 2], 1, 3
        chains = [("KREDG", False), ("KREDG", True), ("KEGA", False)]
    else:
        Lc, fkinds = 6, ("set", "list", "tuple", "npset", "nparray", "nplist")
        bpats = list(spaces.shard_words(R.SYM, 6, "")) + [p for p in spaces.run_length_patterns(8, 4)]
        frozens = [()] + [(i,) for i in range(8)] + [(i, j) for i in range(8) for j in range(i + 1, 8)]
        seeds, bound, retry = [seed * 7 + 1, seed * 7 + 2, seed * 7 + 3], 2, 3
        chains = [("KREDG", False), ("KREDG", True), ("KEGA", False), ("KRGEAS", False), ("KKEEG", True)]
    for L, pre in spaces.word_shards(R.SYM, 1, Lc, 3 if Lc <= 5 else 4):
        shards.append(("complete", ("P", L, pre, fkinds)))
    nb = 16 * 6
    if tier == "quick":
        for i in range(nb):
            if bpats[i::nb]:
                shards.append(("bounded", (bpats[i::nb], frozens, seeds, bound, retry)))
    else:
        # thorough: shard over (pattern chunk, frozen chunk).  Every 6-mer x every frozen set of up to two sites x three base tapes
        # within one deviation; every 6-mer x three frozen sets x one base tape within TWO deviations; every <=4-run 8-mer x
        # the frozen sets of at most one site x three base tapes within one deviation.  (Two deviations on everything was the
        # original plan; it does not finish within hours - see DESIGN 9.2.)
        six = [p for p in bpats if len(p) == 6]
        eight = [p for p in bpats if len(p) == 8]
        for i in range(nb):
            for fchunk in spaces.chunks(frozens, 4):
                if six[i::nb]:
                    shards.append(("bounded", (six[i::nb], fchunk, seeds, 1, retry)))
            if six[i::nb]:
                shards.append(("bounded", (six[i::nb], [(), (0,), (2, 3)], seeds[:1], 2, retry)))
            for fchunk in spaces.chunks([f_ for f_ in frozens if len(f_) <= 1], 3):
                if eight[i::nb]:
                    shards.append(("bounded", (eight[i::nb], fchunk, seeds, 1, retry)))
    # medium-size inputs with many residues of one sign in mixed spelling (cluster sizes 5..9 only exist here): retry moves,
    # all tapes within 1 (thorough 2) deviations of 6 (thorough 8) base tapes each
    med = ["++0++0+++0", "--0+-0---0-+", "+-++-+0+-+-+0+", "0++++0-++++0", "-+--0--+---0-", "+++0+++0+++0++"]
    mseeds = [seed * 7 + 11 + k for k in range(6 if tier == "quick" else 8)]
    for mp in med:
        for k in range(0, len(mseeds), 2):
            shards.append(("bounded", ([mp], [(), (1,)] if tier == "thorough" else [()], mseeds[k:k + 2], 1 if tier == "quick" else 2, retry)))
    for c in chains:
        shards.append(("chain", [c]))
    two_roots = ["KREDG", "KEGAK", "KRGED"] if tier == "quick" else ["KREDG", "KEGAK", "KRGED", "KREDGA", "GKEGRD"]
    for r_ in two_roots:
        for combo in (("swapRandChargeRes", "swapRandChargeRes"), ("full_shuffle", "swapRandChargeRes"), ("swapRandChargeRes", "full_shuffle")):
            shards.append(("twostep", ([r_], [combo])))
    shards.append(("sharedfrozen", [("KEG", "KEGKEG", (1, 4)), ("KE", "KREDGA", (0, 3, 5)), ("GKE", "GKEDRS", (2, 9, 4))]))
    acc = core.pmap(shard, shards)
    return core.finish(
        PROP, tier, seed, acc, t0,
        rule="state = one parent sequence (every charge pattern of length 1..%d in a distinct-letter spelling, delta-max cached "
             "or not). swapRes: all (i,j) with -L <= i,j < L. full_shuffle, swapRandChargeRes, get_shuffled_sequence, SequencePermutants.get_permutant: "
             "COMPLETE tree of all outcomes of the internal random draws (scripted random.Random: every value of every _randbelow, "
             "both sides of every float comparison) x every frozen subset (as %s) and five frozen sets with members outside the sequence (len, len+1, -1, 10^6). permute_block_swap / permute_cluster_charges: "
             "%d patterns x %d frozen sets, all tapes within %s of %d base tape(s) (VERIF_SEED-derived), horizon 60 choice "
             "points, retry bound %d candidate children (cut executions are 'truncated' and not judged); plus 6 medium-size patterns (10-14 residues, 6-11 residues of one sign in alternating K/R, D/E spelling) x 6-8 base tapes. Chains: BFS over live "
             "objects under swapRes/full_shuffle/swapRandChargeRes x all tapes to the fixpoint of (arrangement, cached) states from "
             "%d roots; two-move sequences with a different single-site frozen set per move (complete trees of both moves); one frozen-set "
             "object reused on a short and then a longer sequence. Oracle per execution: child is a rearrangement, frozen positions keep their residue, child.len / charge "
             "pattern / counts equal a fresh object's, carried delta-max equals a fresh delta-max, with warmed parent caches the child's SCD/delta/FCR/NCPR/counts/hydropathy equal a "
             "fresh object's and its delta-max permutant is a rearrangement of its own residues attaining the fresh delta-max, deep snapshot of the parent unchanged, package state unchanged, shuffles and swaps never raise; transitions = executions" % (
                 Lc, "/".join(fkinds), len(bpats), len(frozens),
                 "1 deviation" if tier == "quick" else "1 deviation (6-mers: every frozen set of up to two sites; <=4-run 8-mers: frozen sets of at most one site) "
                 "and within 2 deviations for every 6-mer x three frozen sets x one base tape", len(seeds), retry, len(chains)),
        bounds={"L_complete": Lc, "bounded_patterns": len(bpats), "frozen_sets_bounded": len(frozens), "deviations": bound,
                "base_tapes": len(seeds), "horizon": 60, "retry_bound": retry, "chain_roots": len(chains)},
        exhaustive=True,
        assumptions=["random draws are owned through localcider.backend.sequence.rng (module attribute shadowed by a shim whose "
                     "Random is a random.Random subclass overriding only random() and _randbelow())",
                     "swapRandChargeRes is only given frozen *sets* (its default); full_shuffle/get_shuffled_sequence also lists/tuples"])
