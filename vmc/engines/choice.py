"""E3 - stateless exploration of the answers given to the code's random draws.

`ScriptedRandom` subclasses random.Random and overrides only the two primitives random() and _randbelow(n)
(seed() is a no-op), so shuffle/sample/randint/choice run CPython's real algorithms on answers chosen by
the explorer.  A run replays a prefix of choice indices and then takes the default answer at every later
point.  Two modes: complete (every alternative at every point) and deviation-bounded (all tapes with at most
d non-default answers, default = a fixed pseudo-random base tape derived from VERIF_SEED).
"""
import hashlib
import random


class Truncated(BaseException):
    """Horizon or retry bound hit: the execution is cut, not judged for termination."""


class Divergence(Exception):
    """Replaying a recorded prefix met a different choice point: uncontrolled nondeterminism."""


FLOAT_MENU = (0.0, 0.25, 0.5, 0.75, 1.0 - 1e-12)
CAP = 12


class Tape:
    def __init__(self, prefix=(), seed=None, horizon=400, float_menu=None, stream=0):
        self.prefix = list(prefix)
        self.seed = seed            # None: default answer is index 0; int: pseudo-random base tape
        self.horizon = horizon
        self.points = []            # (kind, menu, chosen index, default index)
        self.float_menu = float_menu  # callable(tape) -> sequence of floats, or None
        self.capped = 0
        self.stream = stream
        self.log = []               # answers actually given (for determinism checks)

    def default(self, i, n):
        if self.seed is None:
            return 0
        h = hashlib.sha1(("%d:%d:%d" % (self.seed, self.stream, i)).encode()).digest()
        return int.from_bytes(h[:4], "big") % n

    def choose(self, kind, menu):
        i = len(self.points)
        if i >= self.horizon:
            raise Truncated("horizon of %d choice points" % self.horizon)
        n = len(menu)
        d = self.default(i, n)
        if i < len(self.prefix):
            c = self.prefix[i]
            if not (0 <= c < n):
                raise Divergence("choice %d at point %d but menu has %d entries (%s)" % (c, i, n, kind))
        else:
            c = d
        self.points.append((kind, n, c, d))
        self.log.append(menu[c])
        return menu[c]

    # ---- the two primitives
    def randbelow(self, n):
        if n <= CAP:
            menu = list(range(n))
        else:
            self.capped += 1
            menu = sorted({0, 1, n // 2, n - 1})
        return self.choose("below%d" % n, menu)

    def rand(self):
        menu = list(self.float_menu(self)) if self.float_menu else list(FLOAT_MENU)
        return self.choose("float", menu)

    def choices(self):
        return [p[2] for p in self.points]

    def deviations_before(self, i):
        return sum(1 for p in self.points[:i] if p[2] != p[3])


class ScriptedRandom(random.Random):
    """random.Random whose primitives are answered by the current tape."""
    tape = None   # set by the harness before each execution

    def __new__(cls, *a, **k):
        return super().__new__(cls)

    def __init__(self, *a, **k):
        pass

    def seed(self, *a, **k):
        return None

    def random(self):
        return ScriptedRandom.tape.rand()

    def _randbelow(self, n):
        return ScriptedRandom.tape.randbelow(n)

    def getrandbits(self, k):  # pragma: no cover - not used by the code under test
        return ScriptedRandom.tape.randbelow(1 << min(k, 3))


class RngShim:
    """Stands in for the `random` module inside a localcider module (`rng.Random()` returns a ScriptedRandom)."""
    Random = ScriptedRandom

    def __getattr__(self, name):
        return getattr(random, name)


def install(*modules):
    for m in modules:
        m.rng = RngShim()


def explore(run, mode="complete", bound=0, seed=None, horizon=400, float_menu=None, stream=0, max_execs=None, start_prefix=()):
    """Generator of (tape, result) over all executions.

    run(tape) executes the code under test with ScriptedRandom.tape = tape and returns an observation.
    mode 'complete': every alternative at every point after the prefix.
    mode 'bounded' : every tape with at most `bound` deviations from the default tape.
    """
    stack = [list(start_prefix)]
    n = 0
    while stack:
        prefix = stack.pop()
        tape = Tape(prefix, seed, horizon, float_menu, stream)
        ScriptedRandom.tape = tape
        try:
            result = run(tape)
        finally:
            ScriptedRandom.tape = None
        n += 1
        yield tape, result
        if max_execs is not None and n >= max_execs:
            return
        ch = tape.choices()
        # children: change one later point to a non-taken alternative
        kids = []
        for i in range(len(prefix), len(tape.points)):
            kind, m, c, d = tape.points[i]
            if mode == "bounded":
                cost = tape.deviations_before(i)
                if cost + 1 > bound:
                    continue
            for alt in range(m):
                if alt == c:
                    continue
                if mode == "bounded" and alt == d:
                    continue
                kids.append(ch[:i] + [alt])
        # with mode complete and seed None, c is always 0 after the prefix, so alts are 1..m-1
        stack.extend(reversed(kids))


def rerun(run, tape):
    """Replay exactly the choices of `tape` (for determinism checks and replays)."""
    t2 = Tape(tape.choices(), tape.seed, tape.horizon, tape.float_menu, tape.stream)
    ScriptedRandom.tape = t2
    try:
        r = run(t2)
    finally:
        ScriptedRandom.tape = None
    return t2, r
