"""E2 - explicit-state BFS over API call histories on live objects, to the canonical-state fixpoint.

A state is identified by a history (list of op indices) that reaches it.  To expand a history the world is
rebuilt (fresh import of localcider, fresh objects) and the history replayed; after every call the canonical
state is computed; a history is enqueued only if its canonical state is new.  While expanding one state the
live world is reused for the next operation as long as the canonical state did not change (otherwise it is
rebuilt and the history replayed again).
"""
import hashlib
import sys
import types

import numpy as np

from .. import core


# ------------------------------------------------------------------------------------------------
# world control
_PRISTINE = {}


def fresh_world():
    """Delete every localcider module and import the package again from the working tree."""
    for k in [k for k in sys.modules if k == "localcider" or k.startswith("localcider.")]:
        del sys.modules[k]
    if not _PRISTINE:
        import matplotlib
        _PRISTINE["err"] = np.geterr()
        _PRISTINE["po"] = np.get_printoptions()
        _PRISTINE["rc"] = dict(matplotlib.rcParams)
    else:
        import matplotlib
        np.seterr(**_PRISTINE["err"])
        np.set_printoptions(**_PRISTINE["po"])
        if dict(matplotlib.rcParams) != _PRISTINE["rc"]:
            import warnings
            with warnings.catch_warnings():
                warnings.simplefilter("ignore")
                matplotlib.rcParams.update(_PRISTINE["rc"])
    with core.quiet():
        import localcider  # noqa
        import localcider.sequenceParameters  # noqa
        import localcider.sequencePermutants  # noqa
    try:
        import matplotlib.pyplot as plt
        plt.close("all")
    except Exception:  # noqa
        pass


# ------------------------------------------------------------------------------------------------
# canonical state
def ser(x, seen=None, depth=0):
    """Deep, cycle-safe, order-insensitive-where-unordered serialisation to a plain nested tuple."""
    if seen is None:
        seen = set()
    if x is None or isinstance(x, (bool, int, str, bytes)):
        return x
    if isinstance(x, float):
        return ("f", repr(x))
    if isinstance(x, np.ndarray):
        return ("nd", str(x.dtype), x.shape, x.tobytes())
    if isinstance(x, np.generic):
        return ("ng", str(x.dtype), repr(x.item()))
    if id(x) in seen or depth > 12:
        return ("cycle", type(x).__name__)
    if isinstance(x, (list, tuple)):
        seen = seen | {id(x)}
        return (type(x).__name__,) + tuple(ser(v, seen, depth + 1) for v in x)
    if isinstance(x, dict):
        seen = seen | {id(x)}
        return ("dict",) + tuple(sorted(((repr(k), ser(v, seen, depth + 1)) for k, v in x.items()), key=lambda t: t[0]))
    if isinstance(x, (set, frozenset)):
        return ("set",) + tuple(sorted(repr(v) for v in x))
    if isinstance(x, types.ModuleType):
        return ("module", x.__name__)
    if isinstance(x, (types.FunctionType, types.BuiltinFunctionType, types.MethodType, type)):
        return ("callable", getattr(x, "__qualname__", repr(x)))
    mod = getattr(type(x), "__module__", "") or ""
    if mod.startswith("localcider") and hasattr(x, "__dict__"):
        seen = seen | {id(x)}
        return ("obj", type(x).__qualname__, ser(vars(x), seen, depth + 1))
    return ("other", type(x).__name__, repr(x)[:200])


def _fn_state(f, seen):
    cl = ()
    if f.__closure__:
        vals = []
        for c in f.__closure__:
            try:
                vals.append(ser(c.cell_contents, seen, 1))
            except ValueError:
                vals.append("<empty>")
        cl = tuple(vals)
    return (ser(f.__defaults__, seen, 1), ser(f.__kwdefaults__, seen, 1), ser(dict(f.__dict__), seen, 1), cl)


def package_state():
    """(b) function defaults/attributes/closures, (c) module globals and class attributes, (d) numpy/mpl globals."""
    out = []
    for mname in sorted(k for k in sys.modules if (k == "localcider" or k.startswith("localcider.")) and ".tests" not in k):
        mod = sys.modules[mname]
        if mod is None:
            continue
        for name, val in sorted(vars(mod).items()):
            if name.startswith("__") and name.endswith("__"):
                continue
            if isinstance(val, types.ModuleType):
                continue
            if isinstance(val, types.FunctionType):
                if val.__module__ == mname:
                    out.append((mname, name, "fn", _fn_state(val, set())))
                continue
            if isinstance(val, type):
                if val.__module__ == mname:
                    for an, av in sorted(vars(val).items()):
                        if an in ("__dict__", "__weakref__", "__doc__", "__module__", "__qualname__", "__firstlineno__",
                                  "__static_attributes__"):
                            continue
                        if isinstance(av, types.FunctionType):
                            out.append((mname, name + "." + an, "fn", _fn_state(av, set())))
                        elif isinstance(av, (staticmethod, classmethod)):
                            out.append((mname, name + "." + an, "fn", _fn_state(av.__func__, set())))
                        else:
                            out.append((mname, name + "." + an, "attr", ser(av)))
                continue
            if callable(val) and not hasattr(val, "__dict__"):
                continue
            out.append((mname, name, "glob", ser(val)))
    import matplotlib
    out.append(("numpy", "geterr", "glob", ser(np.geterr())))
    out.append(("numpy", "printoptions", "glob", ser({k: v for k, v in np.get_printoptions().items()})))
    out.append(("matplotlib", "rcParams", "glob",
                hashlib.sha1(repr(sorted((k, repr(v)) for k, v in matplotlib.rcParams.items())).encode()).hexdigest()))
    return out


def canon(objects):
    """objects: dict name -> live object (SequenceParameters / Sequence / ...)."""
    parts = []
    for name in sorted(objects):
        o = objects[name]
        parts.append(("live", name, ser(vars(o)) if hasattr(o, "__dict__") else ser(o)))
    parts.extend(package_state())
    return parts


def digest(parts):
    return hashlib.sha1(repr(parts).encode("utf-8", "backslashreplace")).hexdigest()


def describe_diff(p0, p1):
    d0 = {(a[0], a[1]): a for a in p0}
    d1 = {(a[0], a[1]): a for a in p1}
    return sorted("%s:%s" % k for k in set(d0) | set(d1) if d0.get(k) != d1.get(k))[:6]


# ------------------------------------------------------------------------------------------------
def scramble(x, depth=0):
    """What a call returns belongs to the caller: after recording it, overwrite every mutable container in place.
    A library that hands out its own internal state will show it in later results."""
    try:
        if isinstance(x, np.ndarray):
            if x.flags.writeable and x.dtype.kind in "fiu":
                x[...] = -12345
        elif isinstance(x, dict):
            for k in list(x):
                x[k] = "scrambled"
        elif isinstance(x, list):
            for i in range(len(x)):
                if isinstance(x[i], (list, dict, np.ndarray)) and depth < 3:
                    scramble(x[i], depth + 1)
                else:
                    x[i] = "scrambled"
            x.append("scrambled")
        elif isinstance(x, tuple) and depth < 3:
            for v in x:
                scramble(v, depth + 1)
    except Exception:  # noqa
        pass


NOQUIET = [False]     # set by a harness that supplies its own stdout (e.g. an ASCII-only stream) for the calls


def run_op(op, objects):
    """op = (name, callable(objects)) -> normalised result or ('EXC', type, text)."""
    from ..apivec import norm
    import contextlib
    try:
        with (contextlib.nullcontext() if NOQUIET[0] else core.quiet()):
            raw = op[1](objects)
            res = norm(raw)
            scramble(raw)
            return res
    except Exception as e:  # noqa
        return ("EXC", type(e).__name__, str(e)[:120])


class Expander:
    """Expands one state; lives in a worker process."""

    def __init__(self, build, ops, check=None):
        self.build = build       # () -> objects, on a fresh world
        self.ops = ops
        self.check = check       # (objects, opname, result) -> list of (key, what) extra invariant violations

    def rebuild(self, hist):
        fresh_world()
        with core.quiet():
            objs = self.build()
        for i in hist:
            run_op(self.ops[i], objs)
        return objs

    def expand(self, hist, expected_digest=None):
        """-> dict(digest, steps=[(op index, result, next digest, changed-keys)], divergence)"""
        objs = self.rebuild(hist)
        p0 = canon(objs)
        d0 = digest(p0)
        res = {"digest": d0, "steps": [], "divergence": None, "extra": []}
        if expected_digest is not None and expected_digest != d0:
            res["divergence"] = "replaying %r gave state %s, expected %s" % (hist, d0[:10], expected_digest[:10])
            return res
        for i, op in enumerate(self.ops):
            r = run_op(op, objs)
            if self.check:
                for kv in self.check(objs, op[0], r):
                    res["extra"].append((i,) + tuple(kv))
            p1 = canon(objs)
            d1 = digest(p1)
            changed = describe_diff(p0, p1) if d1 != d0 else ()
            res["steps"].append((i, r, d1, changed))
            if d1 != d0:
                objs = self.rebuild(hist)
        return res
