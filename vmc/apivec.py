"""A vector of read-only analyses of a SequenceParameters object, normalised to plain comparable Python values."""
import numpy as np


def norm(x):
    if isinstance(x, np.ndarray):
        return ("nd", x.shape, tuple(np.asarray(x, dtype=float).ravel().tolist()))
    if isinstance(x, np.generic):
        return x.item()
    if isinstance(x, (list, tuple)):
        return tuple(norm(v) for v in x)
    if isinstance(x, dict):
        return tuple(sorted((k, norm(v)) for k, v in x.items()))
    if isinstance(x, (set, frozenset)):
        return tuple(sorted(norm(v) for v in x))
    return x


def _call(f, *a, **k):
    try:
        return norm(f(*a, **k))
    except Exception as e:  # noqa
        return ("EXC", type(e).__name__)


def OPS(light=False):
    ops = [
        ("get_sequence", lambda o: o.get_sequence()),
        ("get_length", lambda o: o.get_length()),
        ("len", lambda o: len(o)),
        ("str", lambda o: str(o)),
        ("get_FCR", lambda o: o.get_FCR()),
        ("get_NCPR", lambda o: o.get_NCPR()),
        ("get_countPos", lambda o: o.get_countPos()),
        ("get_countNeg", lambda o: o.get_countNeg()),
        ("get_countNeut", lambda o: o.get_countNeut()),
        ("get_mean_hydropathy", lambda o: o.get_mean_hydropathy()),
        ("get_uversky_hydropathy", lambda o: o.get_uversky_hydropathy()),
        ("get_WW_hydropathy", lambda o: o.get_WW_hydropathy()),
        ("get_fraction_disorder_promoting", lambda o: o.get_fraction_disorder_promoting()),
        ("get_amino_acid_fractions", lambda o: o.get_amino_acid_fractions()),
        ("get_molecular_weight", lambda o: o.get_molecular_weight()),
        ("get_PPII_propensity", lambda o: o.get_PPII_propensity()),
        ("get_phasePlotRegion", lambda o: o.get_phasePlotRegion()),
        ("get_kappa", lambda o: o.get_kappa()),
        ("get_delta", lambda o: o.get_delta()),
        ("get_deltaMax", lambda o: o.get_deltaMax()),
        ("get_Omega", lambda o: o.get_Omega()),
        ("get_Omega_sequence", lambda o: o.get_Omega_sequence()),
        ("get_SCD", lambda o: o.get_SCD()),
        ("get_isoelectric_point", lambda o: o.get_isoelectric_point()),
        ("get_NCPR(pH=5)", lambda o: o.get_NCPR(5.0)),
        ("get_all_phosphorylatable_sites", lambda o: o.get_all_phosphorylatable_sites()),
        ("get_phosphosites", lambda o: o.get_phosphosites()),
        ("get_HTMLColorString", lambda o: o.get_HTMLColorString()),
        ("get_reduced_alphabet_sequence(6)", lambda o: o.get_reduced_alphabet_sequence(6)),
        ("get_linear_NCPR(1)", lambda o: o.get_linear_NCPR(1)),
        ("get_linear_hydropathy(2)", lambda o: o.get_linear_hydropathy(2)),
        ("get_linear_complexity(WF,w=1)", lambda o: o.get_linear_complexity("WF", blobLen=1)),
    ]
    if light == "tiny":     # only analyses that are linear in the length (for sequences of thousands of residues)
        keep = {"get_sequence", "get_length", "len", "str", "get_FCR", "get_NCPR", "get_countPos", "get_countNeg", "get_countNeut",
                "get_mean_hydropathy", "get_WW_hydropathy", "get_amino_acid_fractions", "get_molecular_weight", "get_phasePlotRegion",
                "get_delta", "get_NCPR(pH=5)"}
        ops = [o for o in ops if o[0] in keep]
    elif light:
        keep = {"get_sequence", "get_length", "len", "str", "get_FCR", "get_NCPR", "get_mean_hydropathy", "get_kappa",
                "get_SCD", "get_HTMLColorString", "get_molecular_weight", "get_linear_NCPR(1)"}
        ops = [o for o in ops if o[0] in keep]
    return ops


_FULL = OPS()
_LIGHT = OPS(True)
_TINY = OPS("tiny")


def api_vector(o, light=False):
    return tuple((name, _call(f, o)) for name, f in (_TINY if light == "tiny" else (_LIGHT if light else _FULL)))


def diff(a, b):
    for (n1, v1), (n2, v2) in zip(a, b):
        if v1 != v2:
            return n1, v1, v2
    return None
