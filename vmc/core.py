"""Shared runner: world boot, accumulators, parallel sharding, evidence, violations.

Everything a property module needs that is not specific to the property lives here.
"""
import os
import sys
import io
import json
import time
import hashlib
import tempfile
import shutil
import atexit
import contextlib
import multiprocessing as mp

VERIF = os.path.dirname(os.path.dirname(os.path.abspath(__file__)))
REPO = os.environ.get("VMC_REPO", "/repo")
GUARD = "PAPPULAB_LOCALCIDER_VERIF"
NPROC = int(os.environ.get("VMC_NPROC", str(min(16, os.cpu_count() or 1))))

_booted = False


def boot():
    """Make `import localcider` resolve to the working tree of REPO, compiled from source."""
    global _booted
    if _booted:
        return
    os.environ[GUARD] = "1"
    os.environ.setdefault("MPLBACKEND", "Agg")
    # never trust a stale .pyc: look for bytecode only in a fresh, empty prefix
    pfx = tempfile.mkdtemp(prefix="vmc_pyc_")
    atexit.register(shutil.rmtree, pfx, True)
    sys.pycache_prefix = pfx
    sys.dont_write_bytecode = True
    if REPO in sys.path:
        sys.path.remove(REPO)
    sys.path.insert(0, REPO)
    for k in [k for k in sys.modules if k == "localcider" or k.startswith("localcider.")]:
        del sys.modules[k]
    import warnings
    warnings.filterwarnings('ignore', category=SyntaxWarning)
    warnings.filterwarnings('ignore', category=RuntimeWarning)
    warnings.filterwarnings('ignore', category=UserWarning)
    import logging
    logging.getLogger('matplotlib').setLevel(logging.ERROR)
    logging.getLogger('matplotlib.font_manager').setLevel(logging.ERROR)
    with quiet():
        import localcider  # noqa
    f = os.path.realpath(localcider.__file__)
    if not f.startswith(os.path.realpath(REPO) + os.sep):
        raise SystemExit("FATAL: localcider imported from %s, not from %s" % (f, REPO))
    _booted = True


class _Sink(io.TextIOBase):
    def write(self, s):
        return len(s)


@contextlib.contextmanager
def quiet():
    """Swallow the library's prints (status messages, WL banners)."""
    old = sys.stdout
    sys.stdout = _Sink()
    try:
        yield
    finally:
        sys.stdout = old


@contextlib.contextmanager
def captured():
    old = sys.stdout
    buf = io.StringIO()
    sys.stdout = buf
    try:
        yield buf
    finally:
        sys.stdout = old


# ---------------------------------------------------------------------------------------
class Acc:
    """Counters of one shard / one run.  All fields are measured, none is a constant."""

    MAX_OUT = 200000
    MAX_VIOL = 400

    def __init__(self):
        self.states = 0          # distinct explored states (inputs / canonical states / executions)
        self.transitions = 0     # real API calls made on the implementation and compared
        self.traces = 0          # executions in which impl and reference model ran in lock-step
        self.evaluations = 0     # oracle evaluations
        self.nontrivial = 0      # distinct non-trivial cases (rule given per property)
        self.dont_care = 0
        self.truncated = 0
        self.capped = 0
        self.outcomes = set()    # vacuity guard: distinct observed outcomes
        self.violations = []     # dicts: key, what, case
        self._perkey = {}
        self.nviol = 0
        self.samples = []
        self.extra = {}

    def out(self, v):
        if len(self.outcomes) < self.MAX_OUT:
            self.outcomes.add(v)

    def bump(self, k, n=1):
        self.extra[k] = self.extra.get(k, 0) + n

    def viol(self, key, what, case):
        # at most 2 records per key, so that frequent (e.g. known) keys can never crowd out a new one
        self.nviol += 1
        c = self._perkey.get(key, 0)
        if c < 2 and len(self._perkey) < self.MAX_VIOL * 10:
            self._perkey[key] = c + 1
            self.violations.append({"key": key, "what": what, "case": case})

    def sample(self, s, cap=6):
        if len(self.samples) < cap:
            self.samples.append(s)

    def merge(self, o):
        self.states += o.states
        self.transitions += o.transitions
        self.traces += o.traces
        self.evaluations += o.evaluations
        self.nontrivial += o.nontrivial
        self.dont_care += o.dont_care
        self.truncated += o.truncated
        self.capped += o.capped
        if len(self.outcomes) < self.MAX_OUT:
            self.outcomes |= o.outcomes
        for v in o.violations:
            c = self._perkey.get(v["key"], 0)
            if c < 2 and len(self._perkey) < self.MAX_VIOL * 10:
                self._perkey[v["key"]] = c + 1
                self.violations.append(v)
        self.nviol += o.nviol
        for s in o.samples:
            if len(self.samples) < 12:
                self.samples.append(s)
        for k, v in o.extra.items():
            if isinstance(v, (int, float)):
                self.extra[k] = self.extra.get(k, 0) + v
            elif isinstance(v, (set, frozenset)):
                self.extra[k] = set(self.extra.get(k, set())) | set(v)
            elif isinstance(v, list):
                self.extra.setdefault(k, [])
                if len(self.extra[k]) < 50:
                    self.extra[k].extend(v)
            else:
                self.extra[k] = v
        return self


def _run_shard(args):
    func, shard = args
    sys.stdout = _Sink()
    try:
        return func(shard)
    except BaseException as e:  # a crash must be loud, never silent
        import traceback
        a = Acc()
        tb = traceback.extract_tb(e.__traceback__)
        lib = [f for f in tb if os.path.realpath(f.filename).startswith(os.path.realpath(REPO) + os.sep)]
        if lib and not isinstance(e, (KeyboardInterrupt, SystemExit, MemoryError)):
            # the exception came out of the library under test through a harness path that did not expect one:
            # that is a violation of whatever the shard was checking (kept coarse: the shard is the replay unit)
            f = lib[-1]
            a.viol("unexpected-exception:%s" % f.name,
                   "%s: %s raised inside %s (%s:%d) while exploring shard %s" % (
                       type(e).__name__, e, f.name, os.path.basename(f.filename), f.lineno, repr(shard)[:200]),
                   {"kind": "shard", "shard": repr(shard)[:2000], "traceback": traceback.format_exc()[-1500:]})
        else:
            a.extra["harness_errors"] = ["%s on shard %r\n%s" % (e, shard, traceback.format_exc())]
        return a


def pmap(func, shards, nproc=None, chunksize=1):
    """Run func(shard)->Acc over all shards on a fork pool and merge."""
    shards = list(shards)
    total = Acc()
    nproc = nproc or NPROC
    if nproc <= 1 or len(shards) <= 1:
        for s in shards:
            total.merge(_run_shard((func, s)))
        sys.stdout = sys.__stdout__
        return total
    ctx = mp.get_context("fork")
    with ctx.Pool(min(nproc, len(shards))) as pool:
        for a in pool.imap_unordered(_run_shard, [(func, s) for s in shards], chunksize):
            total.merge(a)
    return total


def run_optimized(prop, tier):
    """The interpreter's own flags as a dimension: the module's rejection battery once more in a child started with `python -O`
    (assert statements stripped).  -> Acc with the child's counters and violations (keys marked '(python -O)')."""
    import json
    import subprocess
    acc = Acc()
    env = dict(os.environ)
    env["PYTHONPATH"] = VERIF + os.pathsep + env.get("PYTHONPATH", "")
    r = subprocess.run([sys.executable, "-O", "-B", "-m", "vmc.optrun", prop, tier], cwd=VERIF, env=env, capture_output=True, text=True)
    doc = None
    for line in r.stdout.splitlines():
        if line.startswith("VMC-OPT-JSON "):
            doc = json.loads(line[len("VMC-OPT-JSON "):])
    if doc is None or not doc.get("optimized"):
        acc.extra.setdefault("harness_errors", []).append("python -O child of %s gave no result (rc=%s): %s" % (prop, r.returncode, r.stderr[-400:]))
        return acc
    acc.states += doc["states"]
    acc.transitions += doc["transitions"]
    acc.traces += doc["traces"]
    acc.evaluations += doc["evaluations"]
    acc.bump("python_O_child_states", doc["states"])
    for v in doc["violations"]:
        acc.viol(v["key"] + "(python -O)", v["what"] + " [interpreter started with -O: assert statements stripped]", dict(v["case"], optimized=True))
    for h in doc.get("harness_errors", []):
        acc.extra.setdefault("harness_errors", []).append("python -O child: " + h)
    return acc


# ---------------------------------------------------------------------------------------
def load_known(prop):
    """KNOWN_FINDINGS.txt: 'known: property=<id> key=<key> text' / 'fixed: property=<id> <commit> text'."""
    known = {}
    path = os.path.join(VERIF, "KNOWN_FINDINGS.txt")
    if not os.path.exists(path):
        return known
    for line in open(path):
        line = line.strip()
        if not line.startswith("known:"):
            continue
        parts = line.split(None, 3)
        if len(parts) < 3:
            continue
        pid = parts[1].split("=", 1)[1]
        key = parts[2].split("=", 1)[1]
        if pid == prop:
            known[key] = parts[3] if len(parts) > 3 else ""
    return known


def jsonable(x):
    import fractions
    try:
        import numpy as np
    except Exception:  # pragma: no cover
        np = None
    if isinstance(x, dict):
        return {str(k): jsonable(v) for k, v in x.items()}
    if isinstance(x, (list, tuple)):
        return [jsonable(v) for v in x]
    if isinstance(x, (set, frozenset)):
        return sorted((jsonable(v) for v in x), key=repr)
    if isinstance(x, fractions.Fraction):
        return "%d/%d" % (x.numerator, x.denominator)
    if np is not None:
        if isinstance(x, np.ndarray):
            return jsonable(x.tolist())
        if isinstance(x, np.generic):
            return jsonable(x.item())
    if isinstance(x, float):
        if x != x or x in (float("inf"), float("-inf")):
            return repr(x)
        return x
    if isinstance(x, (str, int, bool)) or x is None:
        return x
    if isinstance(x, bytes):
        return x.decode("latin1")
    return repr(x)


def finish(prop, tier, seed, acc, t0, rule, bounds, exhaustive=True, assumptions=(), level="model_checking",
           min_outcomes=2, replay_fn=None):
    """Write evidence, print KNOWN-FINDING / VIOLATION lines, return the exit code."""
    known = load_known(prop)
    seen_known = {}
    new = {}
    for v in acc.violations:
        if v["key"] in known:
            seen_known.setdefault(v["key"], v)
        else:
            new.setdefault(v["key"], v)
    lines = []
    for k in sorted(seen_known):
        lines.append("KNOWN-FINDING: property=%s %s [key=%s]" % (prop, known[k] or seen_known[k]["what"], k))
    rc = 0
    herr = acc.extra.get("harness_errors")
    if herr:
        for h in herr[:3]:
            sys.stderr.write("HARNESS ERROR: %s\n" % h)
        rc = 2
    # every new violation is replayed (twice) through the explorer-free replay path before it is believed
    confirmed = 0
    if replay_fn is None:
        try:
            import importlib
            replay_fn = importlib.import_module("vmc.props." + prop.lower()).replay
        except Exception:  # noqa
            replay_fn = None
    if replay_fn is not None:
        from .engines.history import fresh_world
        for k in sorted(new)[:12]:
            if new[k]["case"].get("kind") == "shard":
                continue        # an unexpected library exception for a whole shard: re-running the check reproduces it (cli --replay says so)
            try:
                with quiet():
                    fresh_world()       # each replay starts from a freshly imported package (process-global state reset)
                    k1 = sorted(set(x["key"] for x in replay_fn(new[k]["case"])))
                    fresh_world()
                    k2 = sorted(set(x["key"] for x in replay_fn(new[k]["case"])))
            except Exception as e:  # noqa
                sys.stderr.write("NOTE: the stand-alone replay of violation %s raised %r\n" % (k, e))
                continue
            if k1 != k2:
                sys.stderr.write("HARNESS ERROR: replaying violation %s twice gave different results (%r vs %r): "
                                 "uncontrolled nondeterminism\n" % (k, k1, k2))
                rc = 2
            elif k in k1 or k.replace("(python -O)", "") in k1:
                confirmed += 1       # (a violation seen in the -O child replays here in the ordinary interpreter only if it does not depend on -O)
            else:
                sys.stderr.write("NOTE: violation %s was not reproduced by the stand-alone replay (got %r)\n" % (k, k1))
    rdir = os.path.join(VERIF, "replays", prop)
    for i, k in enumerate(sorted(new)):
        v = new[k]
        os.makedirs(rdir, exist_ok=True)
        body = json.dumps(jsonable({"property": prop, "key": k, "what": v["what"], "case": v["case"]}),
                          indent=1, sort_keys=True)
        path = os.path.join(rdir, hashlib.sha1(body.encode()).hexdigest()[:16] + ".json")
        with open(path, "w") as f:
            f.write(body + "\n")
        if i < 25:
            lines.append("VIOLATION property=%s replay=%s  # %s" % (prop, path, v["what"][:300]))
        rc = max(rc, 1)
    # vacuity guards are hard errors of the harness, not violations of the property
    vac = []
    if acc.states < 1 or acc.transitions < 1:
        vac.append("no states/transitions explored")
    if len(acc.outcomes) < min_outcomes:
        vac.append("only %d distinct outcomes observed" % len(acc.outcomes))
    if vac and rc == 0 and not acc.nviol:
        sys.stderr.write("HARNESS ERROR (vacuous exploration): %s\n" % "; ".join(vac))
        rc = 2
    extra = {k: (sorted(v, key=repr)[:40] if isinstance(v, (set, frozenset)) else v) for k, v in acc.extra.items()}
    cov = {
        "states": acc.states,
        "transitions": acc.transitions,
        "traces_validated_against_impl": acc.traces,
        "samples": acc.samples[:12] or ["(none)"],
        "evaluations": acc.evaluations,
        "distinct_nontrivial": acc.nontrivial,
        "rule": rule,
        "exhaustive": bool(exhaustive and not acc.capped),
        "bounds": bounds,
        "distinct_outcomes": len(acc.outcomes),
        "dont_care": acc.dont_care,
        "truncated": acc.truncated,
        "capped_points": acc.capped,
        "known_findings_seen": sorted(seen_known),
        "new_violation_keys": sorted(new)[:50],
        "violating_cases_total": acc.nviol,
        "new_violations_confirmed_by_replay": confirmed,
        "extra": extra,
        "workers": NPROC,
    }
    ev = {
        "property_id": prop,
        "tier": tier,
        "seed": seed,
        "level": level,
        "coverage": jsonable(cov),
        "assumptions": list(assumptions),
        "wall_s": round(time.time() - t0, 3),
        "violations": len(new),
    }
    os.makedirs(os.path.join(VERIF, "evidence"), exist_ok=True)
    with open(os.path.join(VERIF, "evidence", prop + ".json"), "w") as f:
        json.dump(ev, f, indent=1, sort_keys=True)
        f.write("\n")
    out = sys.__stdout__
    for l in lines:
        out.write(l + "\n")
    out.write("%s %s tier=%s seed=%d states=%d transitions=%d traces=%d nontrivial=%d outcomes=%d "
              "known=%d new=%d wall=%.1fs\n" % (
                  "OK" if rc == 0 else "FAIL", prop, tier, seed, acc.states, acc.transitions, acc.traces,
                  acc.nontrivial, len(acc.outcomes), len(seen_known), len(new), time.time() - t0))
    out.flush()
    return rc


class _WriteOnly:
    def write(self, s):
        return len(s)


@contextlib.contextmanager
def istate(seq):
    """The state of the interpreter around a call, as a dimension: for half of the sequences (a deterministic function of
    the sequence) - one eighth each with an ASCII-only stdout, the library is called with numpy's floating-point error handling set to 'raise', with warnings turned into
    errors, or both.  The statements say "returns" / "never fails" without reference to such settings; results must be the same."""
    import warnings
    import zlib
    import numpy as np
    k = zlib.crc32(("istate:" + seq).encode()) % 8
    if k == 4:
        # whatever the library prints goes to a stream that can only encode ASCII (PYTHONIOENCODING=ascii, a C locale, a pipe)
        old_out = sys.stdout
        k2 = zlib.crc32(("stdout:" + seq).encode()) % 3
        if k2 == 0:
            sys.stdout = io.TextIOWrapper(io.BytesIO(), encoding="ascii", errors="strict", write_through=True)
        elif k2 == 1:
            sys.stdout = None                 # e.g. pythonw / a detached process: print() is then a no-op
        else:
            sys.stdout = _WriteOnly()         # an object that only has write(): no flush, no encoding, no fileno
        try:
            yield ("ascii-stdout", "stdout-None", "write-only-stdout")[k2]
        finally:
            sys.stdout = old_out
        return
    if k < 5:
        yield "default"
        return
    old = np.geterr()
    with warnings.catch_warnings():
        if k in (6, 7):
            warnings.simplefilter("error")
            warnings.filterwarnings("ignore", category=SyntaxWarning)   # compile-time warnings of a (re)import are not part of the call
        if k in (5, 7):
            np.seterr(all="raise")
        try:
            yield ("numpy-raise", "warnings-error", "numpy-raise+warnings-error")[k - 5]
        finally:
            np.seterr(**old)


def short(x, n=80):
    """A long sequence / number shortened for messages (the full value is in the replay file)."""
    x = str(x)
    return x if len(x) <= n else x[:n - 20] + "...(%d characters)" % len(x)


ROUTES = ("plain", "plain", "plain", "lower", "spaced", "SeqObj", "mixed", "plain", "deepcopy", "pickle")


def route_of(seq):
    import zlib
    return ROUTES[zlib.crc32(seq.encode()) % len(ROUTES)]


def sp(seq):
    """SequenceParameters for `seq` through one of the construction routes that the statements declare equivalent
    (C13: upper-casing and whitespace removal; SeqObj = a backend Sequence of the same residues; a deep copy or a pickle round trip of
    the object).  The route is a
    deterministic function of the sequence, so a replay takes the same one."""
    from localcider.sequenceParameters import SequenceParameters
    r = route_of(seq)
    if r == "lower":
        return SequenceParameters(seq.lower())
    if r == "spaced":
        return SequenceParameters(" ".join(seq[i:i + 7] for i in range(0, len(seq), 7)) + "\n")
    if r == "mixed":
        return SequenceParameters("\t" + "".join(c.lower() if i % 3 == 1 else c for i, c in enumerate(seq)))
    if r == "SeqObj":
        from localcider.backend.sequence import Sequence
        return SequenceParameters(SeqObj=Sequence(seq))
    if r == "deepcopy":          # a duplicate of a freshly built object answers like the object
        import copy
        return copy.deepcopy(SequenceParameters(seq))
    if r == "pickle":
        import pickle
        return pickle.loads(pickle.dumps(SequenceParameters(seq), protocol=len(seq) % 6))
    return SequenceParameters(seq)


def close(a, b, rel=1e-9, abs_=1e-12):
    try:
        a = float(a)
        b = float(b)
    except Exception:
        return False
    if a != a or b != b:
        return False
    return abs(a - b) <= max(abs_, rel * max(1.0, abs(b)))
