"""./check <ID> [--tier quick|thorough] [--replay file]"""
import argparse
import importlib
import json
import os
import sys
import time

from . import core


def main(argv=None):
    ap = argparse.ArgumentParser()
    ap.add_argument("prop")
    ap.add_argument("--tier", default=os.environ.get("VERIF_TIER", "quick"), choices=["quick", "thorough"])
    ap.add_argument("--replay", default=None)
    args = ap.parse_args(argv)
    prop = args.prop.upper()
    try:
        seed = int(os.environ.get("VERIF_SEED", "0"))
    except ValueError:
        seed = 0
    core.boot()
    mod = importlib.import_module("vmc.props." + prop.lower())
    if args.replay:
        doc = json.load(open(args.replay))
        if doc["case"].get("kind") == "shard":
            sys.__stdout__.write("this replay file records an unexpected library exception for a whole shard:\n%s\n%s\n"
                                 "re-run ./check %s to reproduce it\n" % (doc["what"], doc["case"].get("traceback", ""), prop))
            return 1
        with core.quiet():
            viols = mod.replay(doc["case"])
        out = sys.__stdout__
        out.write("replay %s key=%s\n" % (args.replay, doc.get("key")))
        if not viols:
            out.write("REPLAY: no violation reproduced (property holds on this case now)\n")
            return 0
        for v in viols:
            out.write("REPLAY-VIOLATION key=%s %s\n" % (v["key"], v["what"]))
        return 1
    t0 = time.time()
    return mod.run(args.tier, seed, t0)


if __name__ == "__main__":
    sys.exit(main())
