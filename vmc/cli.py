"""./check <ID> [--tier quick|thorough] [--replay file]"""
import argparse
import importlib
import json
import os
import sys
import time

from . import core


def main(argv=None):
    ap = argparse.ArgumentParser()
    ap.add_argument("prop")
    ap.add_argument("--tier", default=os.environ.get("VERIF_TIER", "quick"), choices=["quick", "thorough"])
    ap.add_argument("--replay", default=None)
    args = ap.parse_args(argv)
    prop = args.prop.upper()
    try:
        seed = int(os.environ.get("VERIF_SEED", "0"))
    except ValueError:
        seed = 0
    core.boot()
    mod = importlib.import_module("vmc.props." + prop.lower())
    if args.replay:
        doc = json.load(open(args.replay))
        if doc["case"].get("kind") == "shard":
            sys.__stdout__.write("this replay file records an unexpected library exception for a whole shard:\n%s\n%s\n"
                                 "re-run ./check %s to reproduce it\n" % (doc["what"], doc["case"].get("traceback", ""), prop))
            return 1
        with core.quiet():
            viols = mod.replay(doc["case"])
        out = sys.__stdout__
        out.write("replay %s key=%s\n" % (args.replay, doc.get("key")))
        if not viols:
            out.write("REPLAY: no violation reproduced (property holds on this case now)\n")
            return 0
        for v in viols:
            out.write("REPLAY-VIOLATION key=%s %s\n" % (v["key"], v["what"]))
        return 1
    t0 = time.time()
    try:
        return mod.run(args.tier, seed, t0)
    except BaseException as e:  # noqa
        # an exception that escapes a check outside the worker pool: if it came out of the library under test it is a violation
        # of whatever was being checked (reported as such, with a replay file); otherwise the harness is broken (exit 2)
        import hashlib
        import traceback
        if isinstance(e, (KeyboardInterrupt, SystemExit)):
            raise
        tb = traceback.extract_tb(e.__traceback__)
        repo = os.path.realpath(core.REPO) + os.sep
        lib = [f for f in tb if os.path.realpath(f.filename).startswith(repo)]
        text = traceback.format_exc()
        out = sys.__stdout__
        if not lib:
            sys.__stderr__.write(text)
            out.write("HARNESS ERROR %s: %r\n" % (prop, e))
            return 2
        rdir = os.path.join(core.VERIF, "replays", prop)
        os.makedirs(rdir, exist_ok=True)
        what = "unexpected %s raised inside %s (%s:%d) while the check was running" % (type(e).__name__, lib[-1].name, os.path.basename(lib[-1].filename), lib[-1].lineno)
        path = os.path.join(rdir, hashlib.sha1(text.encode()).hexdigest()[:16] + ".json")
        json.dump({"property": prop, "key": "unexpected-exception:" + lib[-1].name, "what": what + ": " + repr(e),
                   "case": {"kind": "shard", "shard": "main process", "traceback": text[-1500:]}}, open(path, "w"), indent=1)
        out.write("VIOLATION property=%s replay=%s  # %s: %r\n" % (prop, path, what, e))
        out.write("FAIL %s tier=%s seed=%d (exception out of the library in the main process)\n" % (prop, args.tier, seed))
        return 1


if __name__ == "__main__":
    sys.exit(main())
