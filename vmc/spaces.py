"""Shared finite input spaces and their sharding (DESIGN section 3)."""
import itertools
import math


def word_shards(alphabet, Lmin, Lmax, plen=3):
    """Shards (L, prefix) covering every word over alphabet of length Lmin..Lmax exactly once."""
    out = []
    for L in range(Lmin, Lmax + 1):
        k = min(plen, L)
        for pre in itertools.product(alphabet, repeat=k):
            out.append((L, "".join(pre)))
    # big shards first for load balance
    out.sort(key=lambda s: -s[0])
    return out


def shard_words(alphabet, L, prefix):
    rest = L - len(prefix)
    if rest == 0:
        yield prefix
        return
    for t in itertools.product(alphabet, repeat=rest):
        yield prefix + "".join(t)


def n_words(alphabet, Lmin, Lmax):
    a = len(alphabet)
    return sum(a ** L for L in range(Lmin, Lmax + 1))


def run_length_patterns(N, rmax, alphabet="+-0"):
    """All words of length N with at most rmax runs."""
    for r in range(1, min(rmax, N) + 1):
        # compositions of N into r positive run lengths
        for cuts in itertools.combinations(range(1, N), r - 1):
            lens = [b - a for a, b in zip((0,) + cuts, cuts + (N,))]
            # symbols: adjacent runs differ
            for first in alphabet:
                def rec(i, prev, acc):
                    if i == r:
                        yield acc
                        return
                    for c in alphabet:
                        if c != prev:
                            yield from rec(i + 1, c, acc + c * lens[i])
                yield from rec(1, first, first * lens[0])


def chunks(seq, n):
    seq = list(seq)
    k = max(1, math.ceil(len(seq) / n))
    return [seq[i:i + k] for i in range(0, len(seq), k)]
