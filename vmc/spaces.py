"""Shared finite input spaces and their sharding (DESIGN section 3)."""
import itertools
import math


def word_shards(alphabet, Lmin, Lmax, plen=3):
    """Shards (L, prefix) covering every word over alphabet of length Lmin..Lmax exactly once."""
    out = []
    for L in range(Lmin, Lmax + 1):
        k = min(plen, L)
        for pre in itertools.product(alphabet, repeat=k):
            out.append((L, "".join(pre)))
    # big shards first for load balance
    out.sort(key=lambda s: -s[0])
    return out


def shard_words(alphabet, L, prefix):
    rest = L - len(prefix)
    if rest == 0:
        yield prefix
        return
    for t in itertools.product(alphabet, repeat=rest):
        yield prefix + "".join(t)


def n_words(alphabet, Lmin, Lmax):
    a = len(alphabet)
    return sum(a ** L for L in range(Lmin, Lmax + 1))


def run_length_patterns(N, rmax, alphabet="+-0"):
    """All words of length N with at most rmax runs."""
    for r in range(1, min(rmax, N) + 1):
        # compositions of N into r positive run lengths
        for cuts in itertools.combinations(range(1, N), r - 1):
            lens = [b - a for a, b in zip((0,) + cuts, cuts + (N,))]
            # symbols: adjacent runs differ
            for first in alphabet:
                def rec(i, prev, acc):
                    if i == r:
                        yield acc
                        return
                    for c in alphabet:
                        if c != prev:
                            yield from rec(i + 1, c, acc + c * lens[i])
                yield from rec(1, first, first * lens[0])


def chunks(seq, n):
    seq = list(seq)
    k = max(1, math.ceil(len(seq) / n))
    return [seq[i:i + k] for i in range(0, len(seq), k)]


def long_family(N, alphabet="+-0"):
    """A small structured family of long patterns: homopolymers, 2- and 3-block patterns cut at quarter points,
    and periodic patterns of period 2, 3, 5, 8."""
    out = []
    for a in alphabet:
        out.append(a * N)
    cuts = sorted({N // 4, N // 2, (3 * N) // 4, 1, N - 1})
    for a in alphabet:
        for b in alphabet:
            if a == b:
                continue
            for c in cuts:
                out.append(a * c + b * (N - c))
            out.append(a * (N // 3) + b * (N // 3) + a * (N - 2 * (N // 3)))
    for unit in ("+-", "+0", "-0", "+-0", "++-", "+--", "++--0", "++++----", "+++00---"):
        out.append((unit * (N // len(unit) + 1))[:N])
    return out


def de_bruijn(alphabet, n):
    """de Bruijn sequence B(k, n) over `alphabet`, written out linearly (every word of length n occurs exactly once as a window)."""
    k = len(alphabet)
    a = [0] * k * n
    seq = []

    def db(t, p):
        if t > n:
            if n % p == 0:
                seq.extend(a[1:p + 1])
        else:
            a[t] = a[t - p]
            db(t + 1, p)
            for j in range(a[t - p] + 1, k):
                a[t] = j
                db(t + 1, t)
    db(1, 1)
    out = "".join(alphabet[i] for i in seq)
    return out + out[:n - 1]


def window_complete_chunks(alphabet, n, lengths):
    """Irregular medium-size words: consecutive chunks (overlapping by n-1) of a de Bruijn sequence, so that together they
    contain every window of n symbols; one family per chunk length."""
    d = de_bruijn(alphabet, n)
    out = []
    for L in lengths:
        step = L - (n - 1)
        for i in range(0, len(d) - (n - 1), step):
            w = d[i:i + L]
            if len(w) >= n:
                out.append(w)
    return out


def padded_cores(lengths=(24, 31, 40), pads=(0, 1, 3, 8), alphabet="+-0", n=4):
    """Families that share a sub-structure: irregular cores (window-complete chunks, trimmed so that both ends are charged)
    each embedded in every combination of left / right neutral padding - same core, different length and offset; emitted
    core-major (all paddings of one core in a row) and then padding-major."""
    cores = []
    for w in window_complete_chunks(alphabet, n, lengths):
        w = w.strip("0")
        if len(w) >= 8 and w not in cores:
            cores.append(w)
    cores = cores[:: max(1, len(cores) // 6)][:6]
    out = []
    for c in cores:
        for l in pads:
            for r in pads:
                out.append("0" * l + c + "0" * r)
    for l in reversed(pads):
        for r in pads:
            for c in cores:
                out.append("0" * l + c + "0" * r)
    return out
