"""Reference Wang-Landau bookkeeping machine, stepped in lock-step with the implementation's hook events."""
import math


class Mismatch(Exception):
    def __init__(self, key, what):
        super().__init__(what)
        self.key = key
        self.what = what


class RefWL:
    def __init__(self, seq, nbins, binmin, binmax, flatchk, flatcrit, convergence, kappa_of):
        self.input = seq
        self.nbins = int(nbins)
        self.binmin = float(binmin)
        self.binmax = float(binmax)
        self.period = int(flatchk)
        self.flatcrit = float(flatcrit)
        self.conv = float(convergence)
        self.kappa_of = kappa_of
        width = (self.binmax - self.binmin) / self.nbins
        self.nact = int(round(1.0 / width))
        self.centres = [(i + 0.5) / self.nact for i in range(self.nact)]
        # range = the nbins consecutive bins of the equal partition of [0,1] starting with the one that holds binmin
        target = self.binmin + width / 2
        self.rmin = min(range(self.nact), key=lambda i: (abs(self.centres[i] - target), i))
        self.rmax = self.rmin + self.nbins - 1
        self.g = [0.0] * self.nact
        self.H = [0] * self.nact
        self.lnf = 1.0
        self.f = math.e
        self.nstep = 0
        self.niter = 0
        self.cur = None          # current sequence (string)
        self.cur_bin = None
        self.pending = None      # (nseq, idx_new, inrange, p)
        self.steps = 0
        self.accepts = 0
        self.rejects = 0
        self.outrange = 0
        self.flatchecks = 0
        self.iter_log = []       # (lnf of the finished iteration, final histogram)
        self.finished = False

    def bin_of(self, k):
        return min(range(self.nact), key=lambda i: (abs(self.centres[i] - k), i))

    def inrange(self, i):
        return self.rmin <= i <= self.rmax

    # ---- events
    def on_proposal(self, ev):
        if sorted(ev["nseq"]) != sorted(self.input):
            raise Mismatch("proposal-not-rearrangement", "proposed %s is not a rearrangement of %s" % (ev["nseq"], self.input))
        if self.cur is None:
            # first event: the run starts from a rearrangement of the input
            if sorted(ev["oseq"]) != sorted(self.input):
                raise Mismatch("start-not-rearrangement", "run starts from %s" % ev["oseq"])
            self.cur = ev["oseq"]
            self.cur_bin = self.bin_of(self.kappa_of(self.cur))
        if ev["oseq"] != self.cur:
            raise Mismatch("current-sequence", "implementation is at %s, model at %s" % (ev["oseq"], self.cur))
        if ev["idx_old"] != self.cur_bin:
            raise Mismatch("occupied-bin", "implementation occupies bin %r, true kappa of %s is in bin %d" % (ev["idx_old"], self.cur, self.cur_bin))
        k = self.kappa_of(ev["nseq"])
        if not abs(ev["knew"] - k) <= 1e-12:
            raise Mismatch("proposal-kappa", "proposal %s: kappa %r, recomputed %r" % (ev["nseq"], ev["knew"], k))
        b = self.bin_of(k)
        if ev["idx_new"] != b:
            raise Mismatch("proposal-bin", "proposal %s kappa %r: bin %r, expected %d" % (ev["nseq"], k, ev["idx_new"], b))
        inr = self.inrange(b)
        if bool(ev["inrange"]) != inr:
            raise Mismatch("range-test", "bin %d treated as %s range [%d,%d]" % (b, "inside" if ev["inrange"] else "outside", self.rmin, self.rmax))
        p = min(1.0, math.exp(self.g[self.cur_bin] - self.g[b])) if inr else 0.0
        if not abs(float(ev["acceptProb"]) - p) <= 1e-12:
            raise Mismatch("acceptance-probability", "g_old=%r g_new=%r in-range=%s: acceptance probability %r, rule gives %r"
                           % (self.g[self.cur_bin], self.g[b], inr, float(ev["acceptProb"]), p))
        if not abs(float(ev["f"]) - self.f) <= 1e-12:
            raise Mismatch("f-value", "f=%r, model %r" % (ev["f"], self.f))
        # the decision rule "accept iff u < p" is judged with the probability the implementation reported (just validated to agree
        # with the rule's value within 1e-12): a draw placed exactly on p must not turn a last-place rounding difference between
        # math.exp and numpy's exp into a disagreement
        p_dec = float(ev["acceptProb"])
        self.pending = (ev["nseq"], b, inr, p_dec)
        return p_dec

    def on_step(self, ev, u):
        nseq, b, inr, p = self.pending
        self.pending = None
        accept = u < p
        if accept:
            self.cur, self.cur_bin = nseq, b
            self.accepts += 1
        else:
            self.rejects += 1
        if inr:
            self.g[self.cur_bin] += self.lnf
            self.H[self.cur_bin] += 1
        else:
            self.outrange += 1
        self.steps += 1
        if ev["oseq"] != self.cur:
            raise Mismatch("decision", "draw %r vs probability %r: model %s the move, implementation is at %s (model %s)"
                           % (u, p, "accepts" if accept else "rejects", ev["oseq"], self.cur))
        if not self.inrange(self.cur_bin) and self.steps > 0 and accept:
            raise Mismatch("moved-out-of-range", "accepted a move into bin %d outside [%d,%d]" % (self.cur_bin, self.rmin, self.rmax))
        if ev["idx_old"] != self.cur_bin:
            raise Mismatch("occupied-bin", "after the step implementation occupies bin %r, model %d" % (ev["idx_old"], self.cur_bin))
        if [int(x) for x in ev["H"]] != self.H:
            raise Mismatch("histogram-update", "H=%r, model %r" % ([int(x) for x in ev["H"]], self.H))
        if len(ev["g"]) != len(self.g) or any(abs(float(a) - b_) > 1e-9 for a, b_ in zip(ev["g"], self.g)):
            raise Mismatch("g-update", "g=%r, model %r" % ([float(x) for x in ev["g"]], self.g))
        self.nstep += 1
        return accept

    def check_due(self):
        return self.nstep % self.period == 0

    def on_flatcheck(self, ev):
        if not self.check_due():
            raise Mismatch("flatcheck-schedule", "flat check after %d steps with period %d" % (self.nstep, self.period))
        self.flatchecks += 1
        local = self.H[self.rmin:self.rmax + 1]
        mean = sum(local) / float(len(local))
        flat = mean > 0 and all(h >= self.flatcrit * mean - 1e-12 for h in local)
        if flat:
            self.iter_log.append((self.lnf, list(self.H), list(self.g)))
            self.lnf /= 2.0
            self.f = math.exp(self.lnf)
            self.H = [0] * self.nact
            self.niter += 1
        self.nstep = 0
        if not abs(float(ev["f"]) - self.f) <= 1e-12:
            raise Mismatch("f-schedule", "local histogram %r (flat=%s): f=%r, model %r" % (local, flat, float(ev["f"]), self.f))
        if [int(x) for x in ev["H"]] != self.H:
            raise Mismatch("histogram-reset", "after flat check H=%r, model %r" % ([int(x) for x in ev["H"]], self.H))
        if ev["niter"] != self.niter:
            raise Mismatch("iteration-count", "niter=%r, model %d" % (ev["niter"], self.niter))
        if ev["nstep"] != 0:
            raise Mismatch("step-counter", "nstep=%r after a flat check" % ev["nstep"])
        return flat

    def should_stop(self):
        return self.f <= self.conv
