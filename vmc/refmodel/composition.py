"""Reference model for the composition parameters (C04): per-residue sums over pinned tables, exact."""
from fractions import Fraction as F
from . import tables as T


def ref_vector(seq):
    N = len(seq)
    p = sum(1 for a in seq if a in T.POS)
    n = sum(1 for a in seq if a in T.NEG)
    z = N - p - n
    pro = seq.count("P")
    r = {
        "countPos": p, "countNeg": n, "countNeut": z,
        "fraction_positive": F(p, N), "fraction_negative": F(n, N),
        "FCR": F(p + n, N), "NCPR": F(p - n, N), "mean_net_charge": abs(F(p - n, N)),
        "fraction_expanding": F(p + n + pro, N),
        "fraction_disorder_promoting": F(sum(1 for a in seq if a in T.DISORDER_PROMOTING), N),
        "mean_hydropathy": sum(T.KD_SHIFTED[a] for a in seq) / N,
        "uversky_hydropathy": sum(T.KD_UVERSKY[a] for a in seq) / N,
        "WW_hydropathy": sum(T.WW[a] for a in seq) / N,
        "PPII_hilser": sum(T.PPII["hilser"][a] for a in seq) / N,
        "PPII_creamer": sum(T.PPII["creamer"][a] for a in seq) / N,
        "PPII_kallenbach": sum(T.PPII["kallenbach"][a] for a in seq) / N,
        "molecular_weight": sum(T.MW[a] for a in seq) - T.WATER * (N - 1),
    }
    for a in T.AA:
        r["frac_" + a] = F(seq.count(a), N)
    return r


def api_vector(o):
    r = {
        "countPos": o.get_countPos(), "countNeg": o.get_countNeg(), "countNeut": o.get_countNeut(),
        "fraction_positive": o.get_fraction_positive(), "fraction_negative": o.get_fraction_negative(),
        "FCR": o.get_FCR(), "NCPR": o.get_NCPR(), "mean_net_charge": o.get_mean_net_charge(),
        "fraction_expanding": o.get_fraction_expanding(),
        "fraction_disorder_promoting": o.get_fraction_disorder_promoting(),
        "mean_hydropathy": o.get_mean_hydropathy(),
        "uversky_hydropathy": o.get_uversky_hydropathy(),
        "WW_hydropathy": o.get_WW_hydropathy(),
        "PPII_hilser": o.get_PPII_propensity("hilser"),
        "PPII_creamer": o.get_PPII_propensity("creamer"),
        "PPII_kallenbach": o.get_PPII_propensity("kallenbach"),
        "molecular_weight": o.get_molecular_weight(),
    }
    fr = o.get_amino_acid_fractions()
    if set(fr.keys()) != set(T.AA):
        r["frac_keys"] = sorted(fr.keys())
    for a in T.AA:
        r["frac_" + a] = fr.get(a)
    return r
