"""Reference sequence-file parser written from the C14 statement, with three verdicts."""
from .tables import AASET

ACCEPT, REJECT, DONTCARE = "accept", "reject", "dont-care"


def ref_parse(text):
    """-> (verdict, sequence or None, reason)"""
    # a text file's lines end with \n, \r\n or a bare \r (what reading a file in text mode means); tabs, vertical tabs and form
    # feeds are not mentioned by the statement
    text = text.replace("\r\n", "\n").replace("\r", "\n")
    if "\t" in text or "\x0b" in text or "\x0c" in text:
        return DONTCARE, None, "tabs / vertical tabs / form feeds are not mentioned by the statement"
    for ch in text:
        if ch.isspace() and ch not in " \n":
            return DONTCARE, None, "exotic whitespace"
    headers = 0
    seq = []
    star_then_more = False
    header_after_text = False
    for line in text.split("\n"):
        line = line.strip(" ")
        if not line:
            continue
        if line[0] == ">":
            headers += 1
            if headers > 1:
                return REJECT, None, "second header line"
            if seq:
                header_after_text = True
            continue
        for ch in line:
            if ch in AASET:
                if "*" in seq:
                    pass
                seq.append(ch)
            elif ch == " " or ch in "0123456789":
                if seq and seq[-1] == "*":
                    star_then_more = star_then_more or ch != " "
                continue
            elif ch == "*":
                seq.append(ch)
            else:
                return REJECT, None, "character %r in a sequence line" % ch
    s = "".join(seq)
    nstar = s.count("*")
    if nstar > 1:
        return REJECT, None, "repeated '*'"
    if nstar == 1 and not s.endswith("*"):
        return REJECT, None, "non-final '*'"
    if nstar == 1:
        s = s[:-1]
    if header_after_text:
        return DONTCARE, s, "header line after sequence text"
    if not s:
        return DONTCARE, s, "no residues at all"
    if star_then_more:
        return DONTCARE, s, "digits after the final '*'"
    return ACCEPT, s, ""
