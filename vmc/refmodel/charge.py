"""Exact reference model of the charge-patterning parameters (Das & Pappu 2013, Sawle & Ghosh 2015).

A charge pattern is a string over '+', '-', '0'.  Everything is computed with integers and
Fractions; only SCD needs square roots and uses math.fsum over at most N terms.
"""
import itertools
import math
from collections import Counter
from fractions import Fraction as F

from .tables import NEUTRAL, charge

SYM = "+-0"


def pattern_of(seq):
    return "".join("+" if charge(a) > 0 else ("-" if charge(a) < 0 else "0") for a in seq)


def counts(pat):
    return pat.count("+"), pat.count("-"), pat.count("0")


# ---------------------------------------------------------------- spellings
def spell_base(pat):
    return pat.replace("+", "K").replace("-", "E").replace("0", "G")


def spell_covering(pat, k):
    """k in 0..15: positives alternately K,R; negatives alternately D,E; neutral = k-th neutral residue."""
    out = []
    ip = im = 0
    for c in pat:
        if c == "+":
            out.append("KR"[(ip + k) % 2])
            ip += 1
        elif c == "-":
            out.append("DE"[(im + k) % 2])
            im += 1
        else:
            out.append(NEUTRAL[k % 16])
    return "".join(out)


def spell_rotating(pat, k=0):
    out = []
    ip = im = iz = 0
    for c in pat:
        if c == "+":
            out.append("KR"[(ip + k) % 2])
            ip += 1
        elif c == "-":
            out.append("DE"[(im + k) % 2])
            im += 1
        else:
            out.append(NEUTRAL[(iz + k) % 16])
            iz += 1
    return "".join(out)


def invert(pat):
    return pat.translate(str.maketrans("+-", "-+"))


# ---------------------------------------------------------------- sigma / delta
def sigma_counts(p, n, w):
    """sigma = NCPR^2/FCR of a stretch of w residues with p positive and n negative; 0 if uncharged."""
    if p + n == 0:
        return F(0)
    return F((p - n) ** 2, w * (p + n))


def sigma(pat):
    p, n, _ = counts(pat)
    return sigma_counts(p, n, len(pat)) if pat else F(0)


def delta_form(pat, w):
    """Mean squared deviation of blob sigma (all blobs of w residues) from the sequence sigma."""
    N = len(pat)
    nb = N - w + 1
    if nb <= 0:
        return F(0)
    s = sigma(pat)
    q = [1 if c == "+" else (-1 if c == "-" else 0) for c in pat]
    p = sum(1 for x in q[:w] if x > 0)
    n = sum(1 for x in q[:w] if x < 0)
    cnt = Counter()
    cnt[(p, n)] += 1
    for i in range(1, nb):
        out, inn = q[i - 1], q[i + w - 1]
        if out > 0:
            p -= 1
        elif out < 0:
            n -= 1
        if inn > 0:
            p += 1
        elif inn < 0:
            n += 1
        cnt[(p, n)] += 1
    tot = F(0)
    for (bp, bn), c in cnt.items():
        d = s - sigma_counts(bp, bn, w)
        tot += c * d * d
    return tot / nb


def delta(pat):
    return (delta_form(pat, 5) + delta_form(pat, 6)) / 2


# ---------------------------------------------------------------- documented delta-max family
def dmax_family(p, n, z, tie="impl"):
    """Documented family of maximally segregated arrangements for composition (p, n, z).

    tie: how a block-length tie in the one-charge-type regime is read ('impl': the neutral
    block is slid through the charged one, 'alt': the charged block through the neutrals).
    """
    N = p + n + z
    if p + n == 0:
        return ["0" * N]
    if p == 0 or n == 0:
        c = "+" if n == 0 else "-"
        k = p + n
        if z > k or (z == k and tie == "alt"):
            return ["0" * i + c * k + "0" * (z - i) for i in range(z + 1)]
        return [c * i + "0" * z + c * (k - i) for i in range(k + 1)]
    if z == 0:
        if p > n:
            return ["+" * i + "-" * n + "+" * (p - i) for i in range(p + 1)]
        return ["-" * i + "+" * p + "-" * (n - i) for i in range(n + 1)]
    fam = []
    if z >= 18:
        for s in range(0, 7):
            for e in range(0, 7):
                fam.append("0" * s + "+" * p + "0" * (z - s - e) + "-" * n + "0" * e)
    else:
        for m in range(0, z + 1):
            for s in range(0, z - m + 1):
                fam.append("0" * s + "+" * p + "0" * m + "-" * n + "0" * (z - s - m))
    return fam


_dmax_cache = {}


def dmax_ref(p, n, z):
    """Set of acceptable reference values {max over family (impl tie reading), (alt reading)}."""
    key = (p, n, z)
    r = _dmax_cache.get(key)
    if r is None:
        vals = {max(delta(s) for s in dmax_family(p, n, z, "impl"))}
        if (p == 0 or n == 0) and p + n == z and z > 0:
            vals.add(max(delta(s) for s in dmax_family(p, n, z, "alt")))
        r = _dmax_cache[key] = vals
        if len(_dmax_cache) > 200000:
            _dmax_cache.clear()
    return r


def true_dmax(p, n, z):
    """True maximum of delta over ALL arrangements (only for tiny compositions)."""
    N = p + n + z
    best = F(0)
    for pos in itertools.combinations(range(N), p):
        rest = [i for i in range(N) if i not in pos]
        for neg in itertools.combinations(rest, n):
            a = ["0"] * N
            for i in pos:
                a[i] = "+"
            for i in neg:
                a[i] = "-"
            d = delta("".join(a))
            if d > best:
                best = d
    return best


# ---------------------------------------------------------------- SCD
def scd(pat):
    N = len(pat)
    q = [1 if c == "+" else (-1 if c == "-" else 0) for c in pat]
    idx = [i for i, x in enumerate(q) if x]
    cd = Counter()
    for a in range(len(idx)):
        ia = idx[a]
        qa = q[ia]
        for b in range(a + 1, len(idx)):
            ib = idx[b]
            cd[ib - ia] += qa * q[ib]
    return math.fsum(c * math.sqrt(d) for d, c in cd.items()) / N


# ---------------------------------------------------------------- diagram-of-states region
def region(p, n, N):
    fcr = F(p + n, N)
    ncpr = F(p - n, N)
    if fcr < F(1, 4):
        return 1
    if fcr <= F(7, 20):
        return 2
    if abs(ncpr) < F(7, 20):
        return 3
    if p > n:
        return 5
    if n > p:
        return 4
    return None   # unreachable: FCR > .35 and |NCPR| >= .35 implies p != n


# ---------------------------------------------------------------- enumeration helpers
def words(alphabet, L):
    for t in itertools.product(alphabet, repeat=L):
        yield "".join(t)


def compositions(Nmax, Nmin=1):
    """All (p, n, z) with Nmin <= p+n+z <= Nmax."""
    for N in range(Nmin, Nmax + 1):
        for p in range(N + 1):
            for n in range(N - p + 1):
                yield p, n, N - p - n


def arrangements(p, n, z):
    """All distinct arrangements of a composition, as patterns."""
    N = p + n + z
    for pos in itertools.combinations(range(N), p):
        sp = set(pos)
        rest = [i for i in range(N) if i not in sp]
        for neg in itertools.combinations(rest, n):
            a = ["0"] * N
            for i in pos:
                a[i] = "+"
            for i in neg:
                a[i] = "-"
            yield "".join(a)


def multinomial(p, n, z):
    return math.comb(p + n + z, p) * math.comb(n + z, n)
