"""Child process of a check, started as `python -O`: assert statements are stripped and __debug__ is False.

    python -O -B -m vmc.optrun <ID> <tier>

Runs the module's opt_shards(tier) sequentially through its ordinary shard function(s) and prints one JSON document with the
violations found.  The parent (core.run_optimized) merges them, marked "(python -O)".
"""
import importlib
import json
import sys

from . import core


def main():
    prop, tier = sys.argv[1].upper(), sys.argv[2]
    assert not __debug__ or True
    core.boot()
    mod = importlib.import_module("vmc.props." + prop.lower())
    total = core.Acc()
    for func, shard in mod.opt_shards(tier):
        total.merge(core._run_shard((func, shard)))
    out = {"optimized": not __debug__, "states": total.states, "transitions": total.transitions, "traces": total.traces,
           "evaluations": total.evaluations,
           "violations": [{"key": v["key"], "what": v["what"], "case": core.jsonable(v["case"])} for v in total.violations],
           "harness_errors": total.extra.get("harness_errors", [])}
    sys.__stdout__.write("VMC-OPT-JSON " + json.dumps(out) + "\n")


if __name__ == "__main__":
    main()
