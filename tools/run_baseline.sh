#!/bin/bash
# Run the repository's pinned baseline with the guard OFF and compare with BASELINE.json's stable_pass list.
out=$(mktemp /tmp/baseline_XXXX.xml)
cd /repo && env -u PAPPULAB_LOCALCIDER_VERIF /venv/bin/python -m pytest -ra -q -p no:cacheprovider --timeout=900 --continue-on-collection-errors --junitxml=$out >/tmp/baseline_last.log 2>&1
/venv/bin/python - "$out" <<'PY'
import sys, json, xml.etree.ElementTree as ET
base=json.load(open('/root/.vp/BASELINE.json'))
want=set(base['stable_pass'])
t=ET.parse(sys.argv[1])
passed=set()
for tc in t.iter('testcase'):
    if not any(ch.tag in ('failure','error','skipped') for ch in tc):
        passed.add(tc.get('classname')+'::'+tc.get('name'))
missing=sorted(want-passed)
print("baseline: %d/%d stable tests pass%s" % (len(want&passed), len(want), "" if not missing else "  MISSING: "+", ".join(missing)))
sys.exit(1 if missing else 0)
PY
rc=$?
rm -f $out
exit $rc
