#!/usr/bin/env python3
"""Evaluate every seeded change under /tmp/wt/out against the current checks and write /verif/seeded/<id>/.

For each <ID>_<X>: patch.diff, demo.py, meta.json (property, what it needs, confirmation, which check caught it and how).
The patch is applied to /repo, the quick check(s) run, and /repo reverted straight afterwards.
"""
import json, os, re, shutil, subprocess, sys

OUT = "/tmp/wt/out"
CONF = "/tmp/wt/confirm"
DEST = "/verif/seeded"
EXTRA = {"C05_B": ["C17"], "C15_B": ["C15", "C16"], "C16_B": ["C16", "C15"], "C15_A": ["C15", "C16"],
         "C01_C": ["C15", "C01"], "C02_C": ["C15", "C02"], "C03_C": ["C01", "C03"], "C03_D": ["C03:thorough"], "C04_C": ["C15", "C04"],
         "C04_D": ["C15", "C04"], "C05_C": ["C06", "C15"], "C05_D": ["C03", "C05"], "C07_C": ["C17", "C07"], "C08_C": ["C15", "C08"],
         "C08_D": ["C13", "C08"], "C09_C": ["C09", "C15"],
         "C01_E": ["C17", "C01"], "C01_F": ["C13", "C01"], "C02_E": ["C01", "C02"], "C02_F": ["C13", "C02"], "C03_E": ["C13", "C03"],
         "C04_E": ["C14", "C04"], "C05_E": ["C17", "C05"], "C05_F": ["C13", "C05"], "C07_E": ["C13", "C07"], "C07_F": ["C17", "C07"],
         "C08_E": ["C15", "C08"], "C15_E": ["C03", "C15"], "C15_F": ["C01", "C15"], "C17_E": ["C01", "C17"],
         "C01_H": ["C17", "C01"], "C02_G": ["C17", "C02"], "C04_G": ["C13", "C04"], "C05_G": ["C07", "C05"], "C07_G": ["C15", "C07"],
         "C07_H": ["C17", "C07"], "C08_H": ["C17", "C08"], "C10_G": ["C02", "C10"], "C15_H": ["C07", "C15"],
         "C02_J": ["C02", "C15", "C17"], "C03_I": ["C03", "C15", "C16"], "C04_I": ["C04", "C15", "C06"], "C05_I": ["C05", "C15", "C17"],
         "C05_J": ["C05", "C16", "C15"], "C06_I": ["C06", "C17"], "C07_J": ["C07", "C15"], "C08_I": ["C08", "C15", "C16"],
         "C08_J": ["C08", "C13"], "C09_I": ["C09", "C13"], "C10_I": ["C10", "C15"], "C10_J": ["C10", "C15", "C16"],
         "C15_I": ["C15", "C17"], "C15_J": ["C15", "C09"], "C20_I": ["C20", "C12", "C15"],
         "C01_I": ["C01", "C03"], "C01_J": ["C01", "C03"], "C18_I": ["C18", "C17"],
         "C02_K": ["C02", "C17"], "C03_K": ["C03", "C17"], "C04_K": ["C04", "C17"], "C04_L": ["C04", "C17"], "C06_L": ["C06", "C17", "C03"],
         "C07_L": ["C07", "C15", "C04"], "C08_K": ["C08", "C04"], "C08_L": ["C08", "C13"], "C10_K": ["C10", "C17"], "C10_L": ["C10", "C13"],
         "C15_K": ["C15", "C16", "C17"], "C15_L": ["C15", "C10"], "C20_K": ["C20", "C15"], "C20_L": ["C20", "C17", "C15"], "C11_L": ["C11", "C12"],
         "C12_K": ["C12", "C15"], "C16_K": ["C16", "C15"],
         "C01_K": ["C01", "C03"], "C01_L": ["C01", "C15", "C03"], "C05_K": ["C05", "C15", "C17"], "C05_L": ["C05", "C17"],
         "C02_N": ["C02", "C13"], "C06_M": ["C06", "C13"], "C04_M": ["C04", "C13"], "C08_N": ["C08", "C13"], "C04_N": ["C04", "C14"],
         "C08_M": ["C08", "C14"], "C05_M": ["C05", "C15"], "C05_N": ["C05", "C03"], "C09_N": ["C09", "C15", "C16"], "C15_N": ["C15", "C16"],
         "C20_M": ["C20", "C17"], "C13_M": ["C13", "C15"], "C01_M": ["C01", "C03"], "C01_N": ["C01", "C17"],
         "C02_P": ["C02", "C15"], "C03_P": ["C03", "C15"], "C04_O": ["C04", "C08"], "C04_P": ["C04", "C15"], "C12_P": ["C12", "C15"], "C11_P": ["C11"],
         "C15_P": ["C15", "C16"], "C15_Q": ["C15", "C03"], "C15_R": ["C15", "C03"], "C06_Q": ["C06", "C03"], "C06_R": ["C06", "C03"], "C18_R": ["C18", "C17"], "C19_Q": ["C19", "C08"], "C17_O": ["C17", "C15"], "C19_P": ["C19", "C15"], "C08_O": ["C08", "C13"], "C05_O": ["C05", "C13"]}


def sh(cmd):
    return subprocess.run(cmd, shell=True, capture_output=True, text=True)


# RECORD_REPO=<scratch worktree of /repo>: apply the change there and point the checks at it with VMC_REPO (lets several
# evaluations run side by side and leaves /repo alone); default: /repo itself, as described in DESIGN.md 9.5
REPO = os.environ.get("RECORD_REPO", "/repo")
ENVP = ("VMC_REPO=%s " % REPO) if REPO != "/repo" else ""
if os.environ.get("RECORD_NPROC"):
    ENVP += "VMC_NPROC=%s " % os.environ["RECORD_NPROC"]


def main():
    only = sys.argv[1:]
    ids = sorted(f[:-6] for f in os.listdir(OUT) if f.endswith(".patch"))
    assert sh("git -C %s diff --quiet" % REPO).returncode == 0
    for mid in ids:
        if only and mid not in only:
            continue
        prop = mid.split("_")[0]
        checks = EXTRA.get(mid, [prop])
        conf = open(os.path.join(CONF, mid + ".txt")).read() if os.path.exists(os.path.join(CONF, mid + ".txt")) else ""
        d = os.path.join(DEST, mid)
        os.makedirs(d, exist_ok=True)
        shutil.copy(os.path.join(OUT, mid + ".patch"), os.path.join(d, "patch.diff"))
        shutil.copy(os.path.join(OUT, mid + "_demo.py"), os.path.join(d, "demo.py"))
        desc = open(os.path.join(OUT, mid + ".md")).read() if os.path.exists(os.path.join(OUT, mid + ".md")) else ""
        results = []
        assert sh("git -C %s apply %s" % (REPO, os.path.join(d, "patch.diff"))).returncode == 0, mid
        try:
            for c in checks:
                tier = "quick"
                if ":" in c:
                    c, tier = c.split(":")
                r = sh("cd /verif && %stimeout 2400 ./check %s --tier %s" % (ENVP, c, tier))
                viol = [l for l in r.stdout.splitlines() if l.startswith("VIOLATION")]
                keys = []
                ev = os.path.join("/verif/evidence", c + ".json")
                try:
                    keys = json.load(open(ev))["coverage"]["new_violation_keys"][:8]
                except Exception:
                    pass
                results.append({"check": c, "tier": tier, "exit_code": r.returncode, "detected": r.returncode == 1 and bool(viol),
                                "violation_keys": keys, "first_violation": (viol[0].split("#", 1)[1].strip()[:300] if viol else None)})
        finally:
            sh("git -C %s checkout -- ." % REPO)
        meta = {
            "id": mid, "property": prop,
            "origin": "written by an independent sub-agent that saw only the property text and a scratch worktree of /repo (nothing from /verif)"
                      + ("; second round: the agent was also shown one-paragraph summaries of the first-round changes A/B for this property "
                         "and asked for harder ones (histories, long inputs, cooperating edits)" if mid[-1] in "CD" else "")
                      + ("; third round: the agent saw summaries of A-D and was asked for cross-API interactions, numerical edges far from the "
                         "small cases, argument-type sensitivity, rarely used entry points and three-step histories" if mid[-1] in "EF" else "")
                      + ("; fourth round: the agent saw one-line summaries of A-F and was asked to go through the statement clause by clause and "
                         "break clauses no earlier change touched" if mid[-1] in "GH" else "")
                      + ("; fifth round: the agent saw one-line summaries of A-H and was asked for changes as hard to expose as it could make them "
                         "(medium-size irregular inputs, histories across objects, argument forms, float ties, cooperating edits)" if mid[-1] in "IJ" else "")
                      + ("; sixth round: the agent saw one-line summaries of A-J, was told which mechanisms are used up, and was asked for last-element slips, "
                         "error paths that leave partial state, long-input accumulation effects, interplay between the public classes, "
                         "presence/absence combinations, exactly attained float values and two-object protocols" if mid[-1] in "KL" else "")
                      + ("; seventh round: the agent saw one-line summaries of A-L and a list of used-up mechanisms, was told to assume a very thorough "
                         "tester and to look for what such a tester still holds fixed (value-dependent Python/numpy semantics, vectorised rewrites, "
                         "output formats, rare keywords, asymmetries, pairs of options, size guards)" if mid[-1] in "MN" else "")
                      + ("; eighth round: the agent saw one-line summaries of A-N, was told what a systematic tester enumerates, and was pointed at the "
                         "state of the interpreter around the call (numpy error state, warnings as errors, stdout, -O), module reloads, "
                         "copied / pickled objects, equivalent entry points and arrangement extremes" if mid[-1] in "OP" else "")
                      + ("; ninth round (ten properties, 30 minutes each): the agent saw summaries of A-P, was told that inputs, options, histories, "
                         "environment and interpreter state are all enumerated, and was asked for silent value-level defects needing a "
                         "combination of three or more conditions on 15-60-residue irregular inputs" if mid[-1] in "QR" else ""),
            "description_and_what_it_needs_to_manifest": desc.strip(),
            "confirmed_in_scratch_worktree": {
                "procedure": "in /tmp/wt/%s: demo on clean tree, git apply patch, 42 stable tests (guard off), demo again, revert" % prop,
                "result": " ".join(conf.split()),
            },
            "how_to_run_demo": "cd <worktree with patch applied> && PYTHONPATH=<worktree> MPLBACKEND=Agg /venv/bin/python /verif/seeded/%s/demo.py  (exit 1 with the change, 0 without)" % mid,
            "checks_run": "git -C /repo apply /verif/seeded/%s/patch.diff; ./check <ID> --tier quick; git -C /repo checkout -- ." % mid,
            "results": results,
            "detected": any(r["detected"] for r in results),
        }
        json.dump(meta, open(os.path.join(d, "meta.json"), "w"), indent=1)
        print(mid, "DETECTED" if meta["detected"] else "MISSED", [(r["check"], r["exit_code"], r["violation_keys"][:2]) for r in results])
        sys.stdout.flush()


if __name__ == "__main__":
    main()
