#!/usr/bin/env python3
"""Regenerate MANIFEST.json from the table below (keeps it schema-valid at all times)."""
import json, os, sys
HERE = os.path.dirname(os.path.dirname(os.path.abspath(__file__)))

E1 = "E1 input-space explorer (vmc/props + vmc/spaces.py)"
E2 = "E2 history explorer (vmc/engines/history.py)"
E3 = "E3 choice-tape explorer (vmc/engines/choice.py)"

# id: (engine, technique, level text, level note, design ref)
CHECKS = {
 "C19": (E1, "exhaustive enumeration of the composition lattice through the real plotting code on the Agg backend (figure geometry read back, exact rational containment) and the full product of entry points x argument configurations",
         "Every composition to total 12 (quick) / 30 (thorough) is plotted with show_phaseDiagramPlot(getFig=True); the marker must be at (f+,f-) and, in exact rationals, inside the drawn polygon whose index is get_phasePlotRegion(). 2 (quick) / 8 (thorough) entry-point families (show with and without getFig, save) x 96 argument configurations on three sequences are checked for marker coordinates, title, axis labels, limits, point labels and font, returned figure; every entry point x {png,pdf,svg}; the four linear plots (show and save) against get_linear_* bar by bar. Beyond the figures, polygons read once from a real figure are tested against every composition to total 80/150; multi-sequence entry points are called with varying numbers of unlabelled sequences, after a rejected call without closing, and every homopolymer X^n (n<=40/120) is drawn.",
         "Figures are inspected in memory (savefig is wrapped; real files are written for the format cases). File byte format, legend contents and label offsets are not judged.",
         "DESIGN.md section 4 C19"),
 "C17": (E3, "stateless exploration of all outcomes of the internal random draws through a scripted random.Random: complete choice trees for the shuffles/swaps x every frozen subset, deviation-bounded tapes with horizon and retry bound for the two retry-loop moves, plus explicit-state BFS over chains of moves on live objects",
         "For every charge pattern to length 5 (quick) / 6 (thorough) in a distinct-letter spelling, cached or not: swapRes on all (i,j); the complete tree of random outcomes of full_shuffle, swapRandChargeRes, get_shuffled_sequence and get_permutant for every frozen subset; permute_block_swap / permute_cluster_charges on all 729 6-mer patterns (thorough also all <=4-run 8-mers) within 1 (quick) / 2 (thorough) deviations of seeded base tapes; chains of moves from 3/5 roots to the fixpoint of the arrangement graph. ~1M executions in the quick tier, each judged for rearrangement, frozen positions, child bookkeeping vs a fresh object, carried delta-max, unchanged parent and package state. The frozen-argument defect of the two retry-loop moves is a known finding keyed by call site. With warmed parent caches the child's SCD/delta/FCR/NCPR/counts/hydropathy must equal a fresh object's; two-move sequences with a different frozen set per move (complete trees) and one frozen-set object reused on a short and then a longer sequence are explored.",
         "Randomness is owned via the module attribute rng of backend/sequence.py; executions cut by the horizon (60 choice points) or the retry bound (3 candidate children) are counted as truncated and not judged.",
         "DESIGN.md section 2.1-E3, section 4 C17"),
 "C18": (E3, "stateless deviation-bounded exploration of the random tape of whole Wang-Landau runs, lock-step with a reference WL machine driven by the guarded per-step hook; every model trace is validated against the implementation by construction",
         "3 (quick) / 10 (thorough) configurations x 6/16 seeded base tapes: all tapes within 1 deviation of every base tape, within 2 of the shortest (thorough: three shortest) and within 3 of one; acceptance draws are placed on both sides of the model-computed acceptance probability. At every hook event the reference machine checks the proposal (rearrangement, true kappa, bin, range test), the acceptance probability, the decision, the g/H update of the occupied bin, the flat-check schedule, flatness test, f schedule, histogram reset and the stop condition; completed runs are checked against the returned array and the six output files. Bin geometry is checked by construction on a grid of (nbins, binmin, binmax); one configuration runs the same machine twice; four same-composition sequences are run one after another in a fresh package.",
         "Needs the guarded hook commit in backend/wang_landau.py; runs that exceed 400 choice points or the in-move retry bound are truncated and only checked step-wise; statistical properties of the sampler are not claimed.",
         "DESIGN.md section 4 C18"),
 "C15": (E2, "explicit-state BFS over read-only call histories on 3/5 live objects to the canonical-state fixpoint (no depth bound), differential oracle against pristine first calls, merge validation",
         "State = full serialisation of every live object plus every localcider function's defaults/attributes/closures, module globals, class attributes and numpy/matplotlib global settings. All 168 (quick) / 280 (thorough) calls are executed from every reachable state (54 states / 18k transitions in the quick tier); each result must be bit-identical to the same call made first on a fresh object; alternative histories reaching a known state are expanded as well and must agree (merge validation). Because the search closes at a fixpoint it covers all finite histories over this alphabet. Phase 1b runs every ordered pair of calls on the same object explicitly (independent of state merging); phase 2 runs every ordered pair of 56 (quick) / 90 (thorough) inputs chosen to collide on coarse cache keys (equal charge counts at different lengths, equal composition in other spellings, 150-250-residue sparse sequences) in a freshly imported package and compares each with its solo result. A state space that does not close is reported as capped, never as a violation.",
         "Assumes state outside the serialisation (third-party private state) does not influence results; argument values are a finite menu.",
         "DESIGN.md section 2.1-E2, section 4 C15"),
 "C16": (E2, "explicit-state BFS over set/clear histories per sequence with a list reference model, to the fixpoint; exhaustive over words and argument alphabet",
         "For every word over {S,Y,K,G} to length 3 (quick) / {S,T,Y,K,E,G} to length 4 and {S,Y,K}^5 (thorough) and two 12-mers, every history of set_phosphosites/clear_phosphosites over the full argument alphabet (all ints -(N+2)..N+2, all ordered pairs as list and tuple, duplicates) is explored until no new site list appears; every transition is compared with the list model and every state with the derived-value invariants (phosphosequence, kappa after phosphorylation, 2^k distribution in binary order, S/T/Y sites). Read-only phospho queries are interleaved into histories, and for every ordered pair of reachable site lists the two-epoch history set / query / clear / set is run on one object; kappa after phosphorylation is asked with and without the object's own delta-max cached; bystander objects must stay empty.",
         "Non-integer positions are outside the property; other object state is C15's job.",
         "DESIGN.md section 4 C16"),
 "C20": (E2, "explicit-state BFS over palette-update histories with a dict reference model to the fixpoint; exhaustive rendering of short words and block-boundary lengths in every palette state",
         "All palette states reachable with 19 valid palettes and every single fault of them are explored (19 states, ~18k transitions quick); accepted iff valid, commit only after validation; in every state every 1-2 residue word and the 20 rotations of the 20-letter cycle at block-boundary lengths (thorough: every length 1..120) are rendered and parsed token by token. Bystander and later-created objects must keep the default palette; a caller-edited dictionary must not change the palette; in a fresh package the first object's palette must not leak into later objects.",
         "Upper-case colour names and extra keys are unspecified (dont-care).",
         "DESIGN.md section 4 C20"),
 "C11": (E1, "exhaustive enumeration of words x complexity type x alphabet x window x step x word size (inputs x configurations); differential locality oracle plus independent entropy reference",
         "Every {L,K,F} word to length 5/7 and {A,S,T,D,E} word to length 4/6 under every (type, alphabet, window 1..N+1, step 1..N, word size 1..6) combination: shape, position row, range, locality against the one-window profile of a fresh object, WF against an independent Shannon entropy on the independently reduced window; all (N,w,s) triples to N=24/40 for shape/positions; unknown types and w>N rejected. All configurations of a word are asked of one live object; windows with equal reduced strings must give equal values; an array returned earlier must not change; a long-then-short scenario in a fresh package.",
         "LC and LZW values are only constrained by range and locality (the statement gives no formula for them).",
         "DESIGN.md section 4 C11"),
 "C12": (E1, "exhaustive enumeration of 12 sizes x 20 residues, all sizes -1..26, word pairs for the homomorphism laws, and every single fault of user alphabets",
         "Exhaustive over (size, residue) against the documented partition table; exact acceptance set of sizes; concatenation/idempotence/length laws on 8 400 (quick) / 168 000 (thorough) word pairs x 12 sizes; four valid user alphabets with all 140 single faults each and six non-dict arguments. Sizes are also swept three times on one reused object through both entry points; user alphabets, faulty ones and predefined sizes are interleaved on one object.",
         "Partition table pinned from the docstring; extra keys in a user alphabet are unspecified.",
         "DESIGN.md section 4 C12"),
 "C13": (E1, "exhaustive enumeration of all strings over a 17-symbol alphabet to length 4/5 and of every code point inserted at every position of three hosts; oracle transcribed from the statement",
         "All 88 741 (quick) / 1.5 M (thorough) strings over an alphabet with one representative per behaviour class (valid upper/lower residues, five kinds of whitespace, invalid letters, digits, punctuation, NUL, case-folding specials), every code point up to U+024F (quick) / the whole BMP (thorough) at every position of three hosts, and 13 non-strings: accept iff the normal form is a residue word, then sequence/length/len and a 32-entry API vector equal those of the normal form. Accepted mixed-case residues are also handed over as a backend Sequence / SequencePermutants; in a fresh package sequence files are parsed before strings are constructed and vice versa.",
         "str subclasses not judged.",
         "DESIGN.md section 4 C13"),
 "C14": (E1, "exhaustive enumeration of all file texts over 8/9 symbols to length 6/8 through an in-memory open(), all structured layouts and their single-character corruptions; three-verdict reference parser",
         "All 300 k (quick) / 48 M (thorough) short file texts, 7 776 structured layouts per sequence and ~100 corruptions at every position of sampled-by-index layouts, plus real temp files: parser result against the reference parser's must-accept/must-reject verdict (dont-care where the statement is silent), and objects built from accepted files against objects built from the string.",
         "open() is shadowed in localcider.backend.seqfileparser for speed (ten cases go through real files); dont-care list in the evidence assumptions.",
         "DESIGN.md section 4 C14"),
 "C05": (E1, "bounded-exhaustive enumeration of charge patterns with their full single-site substitution orbits, reversal and inversion; metamorphic oracle between two real evaluations",
         "Every pattern to length 6 (quick) / 8 (thorough) with every single-site class-preserving substitution, 16 respellings, reversal and inversion, and every {PEDKR, other} word to length 8/11 for Omega; kappa, delta, delta-max, SCD, Omega of each variant are compared with the base sequence. No symmetry reduction is applied because the symmetry is the property.",
         "Relations only - values are judged by C01-C03, C06, C07.",
         "DESIGN.md section 4 C05"),
 "C06": (E1, "exhaustive enumeration of words x all 81 group assignments (inputs x configurations), differential oracle through the real kappa of the independently recoded sequence",
         "Every {K,E,P,G} word of length 1..3 and 5 (thorough 1..6) under all 81 assignments of its letters to the two groups, with swapped groups, member order, letter case and padding by absent residues; one-group vs complementary call; Omega == kappa(recoded) == kappa_X(PEDKR); kappa == kappa_X(ED,KR); Omega string; invalid members rejected at every position. All calls of a word are repeated in forward and reverse order on reused objects; collision histories (every prefix split of sorted letter sets, Omega, kappa) and calls with overlapping groups followed by specified calls run on one object; every {PEDKR, other} word to length 10/13 for Omega.",
         "Overlapping groups and an empty second group are unspecified and not judged.",
         "DESIGN.md section 4 C06"),
 "C09": (E1, "exhaustive enumeration of the 9-class composition lattice x a pH grid; independent Henderson-Hasselbalch reference; call-count bound on the pI search",
         "All compositions over {K,R,H,D,E,C,Y,P,other} with total <=4 (quick) / <=6 (thorough) x a 56/86-point pH grid including every pKa and both interval ends +-1e-9, plus extreme X^a Y^b sequences up to 1000 residues for the pI bracket-widening path: values, monotonicity, bounds, range rejection, pI termination (<=400 charge evaluations) and neutrality.",
         "pKa table pinned in vmc/refmodel/tables.py; pH values between grid points are not covered (the functions are smooth sums of sigmoids).",
         "DESIGN.md section 4 C09"),
 "C10": (E1, "exhaustive enumeration of words x every window size x every profile getter, exact rational reference per window",
         "Every {K,E,G,P} word to length 5 (quick) / 7 (thorough) x windows 1..N+3 x the four profile getters and the composition getter with 7 group lists: shape, position row, centre placement for odd and even windows, zero flanks, w=N link to the global getter, delta link, and rejection of w>N.",
         "Hydropathy profile is taken to be on the Uversky 0-1 scale (equals get_uversky_hydropathy at w=N).",
         "DESIGN.md section 4 C10"),
 "C01": (E1, "bounded-exhaustive explicit-state enumeration of charge patterns and of all arrangements of sparse compositions; invariant checked on every state",
         "Every charge pattern up to length 10 (quick) / 12 (thorough) and every arrangement of the sparse compositions of total 10..20 is run through the real get_kappa/get_delta/get_deltaMax and judged by the three clauses of the property (-1 iff delta-max 0; clamp(delta/delta-max); range). The range clause genuinely fails today for a listed finite set of patterns (known finding F-KAPPA); any pattern outside that list is a violation.",
         "delta and delta-max are taken from the same API (their values are C02/C03's job); the list of known kappa>1 orbits is complete only for the explored space.",
         "DESIGN.md section 4 C01, section 5 F-KAPPA"),
 "C03": (E1, "bounded-exhaustive enumeration of the composition lattice (n+,n-,n0), several presentations per composition, exact rational reference for the documented search family",
         "Every composition up to total 24 (quick) / 45 (thorough) - covering all four search regimes, the 17/18-neutral boundary and block-length ties - is presented in up to five arrangements/spellings; delta-max must equal the exact maximum over the independently generated documented family, the returned permutant must be a rearrangement whose real get_delta() equals it, and all arrangements of every composition of total <=7/8 must agree. Beyond that lattice every composition with at least 18 neutrals up to total 32 (quick) / 50, and with minority charge <=6 up to total 80 (thorough), is checked; each presentation uses a different residue spelling so that a permutant remembered from another object cannot pass.",
         "Trusts vmc/refmodel/charge.py:dmax_family as the reading of the documented search; compositions above the bound are not covered.",
         "DESIGN.md section 4 C03"),
 "C04": (E1, "exhaustive enumeration of all residue words up to length 3/4 and of two-residue block sequences, exact per-residue reference tables",
         "All 8 420 words of length <=3 (thorough: all multisets of 4 with all permutations) and 25k block sequences: 18 getters each compared with exact sums over pinned published tables, plus the five identities and permutation invariance. The parameters are per-residue folds, so single residues and pairs already pin every table entry.",
         "Trusts the pinned tables in vmc/refmodel/tables.py.",
         "DESIGN.md section 4 C04"),
 "C07": (E1, "bounded-exhaustive enumeration of charge patterns, independent reference for the double sum",
         "Every charge pattern to length 10/12, 17 spellings to length 6/8 and all <=3-run patterns to length 20/40 through the real get_SCD(), compared with an independent evaluation of the Sawle-Ghosh sum. Structured long families to 256/1000 residues and every length 2..200/520 ascending and descending in a freshly imported package.",
         "Reference in vmc/refmodel/charge.py:scd; float tolerance 1e-9 relative.",
         "DESIGN.md section 4 C07"),
 "C08": (E1, "exhaustive enumeration of the composition lattice, exact rational threshold cascade",
         "Every triple (n+,n-,N) with N<=60 (quick) / 150 (thorough), realised as 2-4 actual sequences, through the real get_phasePlotRegion(); any exception or disagreement with the rational cascade is reported. The function factors through the triple, so this is exhaustive for all sequences up to that length.",
         "Rational cascade in vmc/refmodel/charge.py:region.",
         "DESIGN.md section 4 C08"),
 "C02": (E1, "bounded-exhaustive explicit-state enumeration of charge patterns, lock-step exact rational reference model",
         "Every charge pattern up to the length bound (quick 10, thorough 13), in spellings that use all 20 residues, plus all <=3-run patterns to length 20/40, is fed to the real get_delta() and compared with exact Fraction evaluation of the Das-Pappu definition. Exhaustive within the bound; the algorithm is a 5/6-residue window fold, so the small scope contains every regime. Structured long families to 256/1000 residues and every length 1..200/520 ascending and descending in a freshly imported package.",
         "Trusts the reference model in vmc/refmodel/charge.py and the pinned charge classes in vmc/refmodel/tables.py; sequences longer than the bounds are not covered.",
         "DESIGN.md section 4 C02"),
}


# families added after the seeded rounds (DESIGN.md 9.5); appended to the level text
EXT = {
 "C01": "Also: window-complete (de Bruijn) medium words, lopsided neutral-free families (one/two minority residues at every position, a minority block at offsets 0..6 inside majorities of 20..68/12..90), eight 260-340-residue patterns with more than 256 residues of a class, the exact delta after kappa on the same object, construction-route rotation (plain/lower/spaced/mixed case/SeqObj). Rounds 7-8: a 7-17-residue neutral flank next to adjacent blocks; calls made in varying interpreter states (numpy errors raising, warnings as errors, ASCII-only/None/write-only stdout) and through deepcopy / pickle construction routes. Round 9: one charged residue or two adjacent ones at every position of a neutral chain up to 40/60.",
 "C02": "Also: structured long families to 1000 residues, every length 1..200/520 ascending and descending in a fresh package, >1000-residue shared-termini sequences, shared-core families (same irregular core between 0/1/3/8 neutral residues), window-complete medium words, construction-route rotation. Rounds 7-8: four patterns at 4101/4500/8200 residues (thorough 16390); varying interpreter states and deepcopy / pickle routes. Round 9: sparsely charged linkers of every length 20..120/400 with two to four charges 1..7 apart in every sign combination.",
 "C03": "Also: the >=18-neutral lattice to total 32/50 (minority <=6 to 80), regime-intersection lattices (one charge type x n0 in 18..36/90; no neutrals with a minority of 1..8 against a majority to 48/96; n0 in {1,17} with small minorities), ten compositions with >256 residues of a class, permutant asked with truthy non-True flags after the value is cached. Rounds 7-8: two compositions with slides of 600 positions; varying interpreter states.",
 "C04": "Also: 13 further spellings of the PPII scale name, 1000-12000-residue sequences over all 20 residues, an after-context pass (16 other API calls incl. kappa_X with absent groups, each followed by 14 composition getters) and the same getters on four derived objects (permutant, two shuffles, SeqObj-sharing wrapper). Rounds 7-8: the getters on eight derived objects (permutant, shuffles, wrappers, deepcopy, copy, pickle); varying interpreter states. Round 9: window-complete words of 19..61 residues over all 20 residues; X^aY^b of 101..300 residues whose Wimley-White mean nearly cancels.",
 "C05": "Also: window-complete medium words with their substitution variants. Round 8: varying interpreter states and construction routes.",
 "C06": "Also: every two-class word to length 10/13 for Omega, long words with one rare letter, window-complete words over {D,E,K,R,G,P} x all 729 assignments, collision histories on one reused object, ten container types for groups, invalid members incl. three-letter codes in absent groups. Round 8: varying interpreter states; the rejection battery once more under python -O.",
 "C07": "Also: structured long families (64..1000), patterns with more than 1024 charged residues at 1100/1501 (2600) residues, every length 2..200/520 in both directions in a fresh package, shared-core families, window-complete medium words, construction-route rotation. Rounds 7-8: 1023/1024/1025-residue patterns with charged termini (thorough 2047-2049, 4097); varying interpreter states.",
 "C08": "Also: near-threshold compositions for every chain length to 1300/6000, construction-route rotation. Round 8: varying interpreter states and deepcopy / pickle routes.",
 "C09": "Also: pH given as Python/numpy ints and float64, the bisection midpoints, floats adjacent to both bounds (nextafter, -1e-300, 0.3-3*0.1, +-inf), pI-first histories, a (count,length) lattice for every chain length to 200/600. Rounds 7-8: phosphosites registered before the pH queries on half of the S/T/Y-containing sequences; varying interpreter states; rejection under python -O.",
 "C10": "Also: windows of 128-300 residues, numpy-integer windows, repeated/duplicate/container-typed group lists, window-complete medium words, rejected window first on the same object and as the first request of a fresh package. Rounds 7-8: X^3Y^3 words and window-complete words over all 20 residues, group lists none of whose groups occurs; varying interpreter states; python -O. Round 9: windows beyond 1000 residues over sparsely charged linkers; a group that is the union of two overlapping earlier groups.",
 "C11": "Also: windows of 256-512 residues, WF at every window length of 31-81-residue words over {L,K,F} and over all 20 residues, alphabet sizes as strings/floats/numpy numbers, rejected window first, one user-alphabet dictionary edited in place between calls. Rounds 7-8: positional calls in the documented order, extra keys in user alphabets, word sizes 1/3/6 for WF and LZW; varying interpreter states; python -O. Round 9: a non-idempotent, merging user alphabet.",
 "C12": "Also: size spellings, three sweeps on one object, returned alphabets overwritten by the caller, each valid user alphabet in five other key orders with and without extra keys, invalid targets that are also keys, a rejected alphabet between two requests for the same size (all 12 sizes x 20 fault positions), one dictionary edited in place. Rounds 7-8: every (user alphabet, predefined size spelling) pair, whitespace-padded / bytes / container targets; varying interpreter states; python -O. Round 9: sequences whose letter set is the representative list of a predefined size x every size; a non-idempotent merging user alphabet.",
 "C13": "Also: long strings to 3000 characters with up to 500 whitespace stretches, 2100-character strings with one foreign character from outside Latin-1, objects whose str() is a valid word (nan, inf, Decimal, paths, exceptions, UserString), every rejected string submitted three times, the SeqObj / SequencePermutants route, parser<->validator cross-talk in three orders. Rounds 7-8: strings constructed while the working directory holds files and directories of those names, the backend validator used as a query; varying interpreter states; python -O. Round 9: raw lengths 1023-1026 / 2047-2050 / 4097 with every kind of last character.",
 "C14": "Also: 11000-35000-residue files, rejected files through the constructor, non-ASCII digits, 13 undecodable byte strings at every position of the sequence lines (in-memory open honouring encoding/errors, and real binary files), 30-residue files over every residue, every residue pair and nucleotide-like sub-alphabets. Rounds 7-8: CR / CRLF / mixed line ends (the reference parser reads text files with universal newlines), files whose text exceeds 64/128 KiB, the silent flag by keyword / position / default, twelve spellings of file names incl. a directory symlink followed by ..; varying interpreter states; python -O. Round 9: 22 header styles and a sequence spelt in three-letter-code words under every group size.",
 "C15": "Also: all ordered same-object call pairs, 56+ ordered input pairs chosen to collide on coarse cache keys, nine context groups from other API areas (plots, moves, files, WL run, rejected calls, accepted-but-degenerate arguments, setters on derived objects), returned containers overwritten by the harness. Rounds 7-8: every query made while numpy errors raise, warnings are errors and stdout is ASCII-only; six module-reload contexts (all in two orders, four single modules) after which the session goes on with new, derived and wrapped objects and plots.",
 "C16": "Also: two-epoch histories, interleaved read-only queries, sequences whose phospho-states lie in kappa's clamp window, 6- and 7-site sequences (64/128 on-off states), returned lists overwritten by the caller followed by one more transition, independent shuffled copies, numpy integers of seven widths. Rounds 7-8: an 11-site sequence (2048 states), list arguments not edited, two wrappers around one backend object, pickle / deepcopy duplicates, every seventh transition in a strict interpreter state; python -O. Round 9: a phospho-state beyond kappa's clamp window; same-letter sites at positions 1 and 10.",
 "C17": "Also: six 10-14-residue patterns with 6-11 residues of one sign for the retry moves, frozen sets with members outside the sequence, numpy-integer frozen collections, warmed parent caches with child analyses and the child's delta-max permutant, consistency of the returned public object, two-move sequences, a reused frozen-set object; trees are bounded (6 constructions per move, 5000 executions) and reported as capped if cut. Rounds 7-8: pair-swap positions -L..L-1, moves made in varying interpreter states.",
 "C18": "Also: non-dyadic ranges, a machine run twice, same-composition sequences in one package, long base-tape runs with g>10, slow-start configurations, a configuration with frozen residues, bin walks (one composition under every bin count 1..12), a 22-residue irregular input with six 0.1-wide bins, bin geometry for every equal partition into 1..256 bins, thresholds at or above the initial f (zero steps). Rounds 7-8: flat-check periods 41/45/64/70, flatness criterion 0, the acceptance draw exactly equal to the acceptance probability. Round 9: one-bin runs in which ln f falls to 2^-30 within 30 steps (g must be updated in double precision).",
 "C19": "Also: polygons x every composition to 80/150, varying numbers of unlabelled sequences in one process, rejected-call-then-plot, all homopolymers, coordinates as strings/numpy numbers, numeric labels incl. zero on ordinary and extreme (>0.8) markers, markers sharing an x-coordinate, every save format followed by further plots with nothing closed by the caller, 221/300-residue linear plots. Rounds 7-8: five further pairs of axis limits on every entry point, region containment on five zoomed diagrams, saves to a bare file name in a working directory on another file system. Round 9: wide-window (33, 75, N-1) linear plots over charge-rich 222/242-residue sequences.",
 "C20": "Also: caller-edited dictionaries, first object of a fresh package, extra keys (accepted, ignored), six other key orders, analyses/plots/shuffles between update and rendering, two handles on one sequence object. Rounds 7-8: first palette updates on five kinds of derived object, renders of 2551-12851 residues (thorough 51201), pickle / deepcopy / copy duplicates, all colours in a strict interpreter state; python -O. Round 9: runs of 10-25 identical residues at offsets 38..52 and A^kB^k blocks; a missing residue together with extra keys.",
}


def main():
    props = [json.loads(l) for l in open(os.path.join(HERE, "properties.jsonl"))]
    na_reason = {}
    p = os.path.join(HERE, "tools", "not_applicable.json")
    if os.path.exists(p):
        na_reason = json.load(open(p))
    checks = []
    for pid in sorted(CHECKS):
        eng, tech, text, note, ref = CHECKS[pid]
        checks.append({
            "property_id": pid,
            "quick_cmd": "./check %s --tier quick" % pid,
            "thorough_cmd": "./check %s --tier thorough" % pid,
            "evidence_file": "/verif/evidence/%s.json" % pid,
            "replay_cmd_template": "./check %s --replay {path}" % pid,
            "engine": eng,
            "level_claimed": {"category": "model_checking", "text": text + " " + EXT.get(pid, "") + " The rule string in evidence/%s.json is the current, authoritative description of what one run enumerated." % pid,
                              "design_ref": ref + "; section 9.5"},
            "level_note": note,
            "technique": tech,
        })
    na = []
    for pr in props:
        if pr["id"] not in CHECKS:
            na.append({"property_id": pr["id"],
                       "reason": na_reason.get(pr["id"], "check designed (DESIGN.md section 4) but not yet built and validated in this tree; not claimed until it is")})
    hooks_commits = []
    hp = os.path.join(HERE, "tools", "hook_commits.txt")
    if os.path.exists(hp):
        hooks_commits = [l.strip() for l in open(hp) if l.strip()]
    man = {
        "version": 1,
        "setup_cmd": "/venv/bin/python -B -c \"import sys; sys.path.insert(0,'/verif'); import vmc.core, vmc.cli; print('vmc ok')\"",
        "hooks": {
            "guard": "PAPPULAB_LOCALCIDER_VERIF",
            "enable": "checks export PAPPULAB_LOCALCIDER_VERIF=1 before importing localcider from /repo's working tree (pure Python: no build step); the only hook is the per-step trace emission in backend/wang_landau.py",
            "baseline_off_cmd": "cd /repo && env -u PAPPULAB_LOCALCIDER_VERIF /venv/bin/python -m pytest -ra -q -p no:cacheprovider --timeout=900 --continue-on-collection-errors",
            "source_commits": hooks_commits,
            "add_only": True,
        },
        "engines": [
            {"name": "E1", "path": "vmc/spaces.py", "serves_properties": [c for c in sorted(CHECKS) if CHECKS[c][0] == E1],
             "kind_free_text": "explicit-state bounded-exhaustive exploration of structured input/configuration spaces on the real API, lock-step with an exact reference model"},
            {"name": "E2", "path": "vmc/engines/history.py", "serves_properties": [c for c in sorted(CHECKS) if CHECKS[c][0] == E2],
             "kind_free_text": "explicit-state BFS over API call histories on live objects to the canonical-state fixpoint, with merge validation"},
            {"name": "E3", "path": "vmc/engines/choice.py", "serves_properties": [c for c in sorted(CHECKS) if CHECKS[c][0] == E3],
             "kind_free_text": "stateless deviation-bounded / complete exploration of the answers given to the code's random draws (scripted random.Random)"},
        ],
        "checks": checks,
        "not_applicable": na,
        "notes": "All checks run the real code from /repo's working tree (pure Python, imported fresh with a private bytecode prefix). VERIF_SEED only selects base tapes/samples, never what is enumerated in E1/E2.",
    }
    with open(os.path.join(HERE, "MANIFEST.json"), "w") as f:
        json.dump(man, f, indent=1)
        f.write("\n")

if __name__ == "__main__":
    main()
