#!/usr/bin/env python3
"""Regenerate the seeded-changes table of DESIGN.md (between the SEEDED-TABLE markers) from seeded/*/meta.json."""
import json, os, re, glob
rows = []
for f in sorted(glob.glob("/verif/seeded/*/meta.json")):
    m = json.load(open(f))
    desc = m["description_and_what_it_needs_to_manifest"].split("\n")
    first = next((l for l in desc if l.strip()), "").strip()
    first = re.sub(r"^[#*\- ]*", "", first)
    first = re.sub(r"^%s\s*[-:–—]*\s*" % m["id"], "", first)[:110].replace("|", "/")
    det = []
    for r in m["results"]:
        if r["detected"]:
            det.append("`./check %s`%s (%s)" % (r["check"], " thorough" if r["tier"] == "thorough" else "", ", ".join("`%s`" % k for k in r["violation_keys"][:2])))
    rows.append("| %s | %s | %s |" % (m["id"], first, "; ".join(det) if det else "**missed**"))
tab = "| change | what it is (first line of the author's note) | caught by (violation keys) |\n|---|---|---|\n" + "\n".join(rows)
p = "/verif/DESIGN.md"
s = open(p).read()
a, b = "<!-- SEEDED-TABLE-BEGIN -->", "<!-- SEEDED-TABLE-END -->"
if a in s:
    s = s[:s.index(a) + len(a)] + "\n" + tab + "\n" + s[s.index(b):]
    open(p, "w").write(s)
print(len(rows), "rows;", sum(1 for r in rows if "**missed**" in r), "missed")
