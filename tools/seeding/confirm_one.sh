#!/bin/bash
# usage: confirm_one.sh C07 A   -> writes /tmp/wt/confirm/C07_A.txt
id=$1; x=$2; wt=/tmp/wt/$id; out=/tmp/wt/confirm/${id}_$x.txt
patch=/tmp/wt/out/${id}_$x.patch; demo=/tmp/wt/out/${id}_${x}_demo.py
{
git -C $wt checkout -q -- . ; git -C $wt clean -fdq
cd $wt
MPLBACKEND=Agg PYTHONPATH=$wt timeout 600 /venv/bin/python $demo >/dev/null 2>&1; echo "demo_clean_rc=$?"
if git -C $wt apply $patch; then echo "applies=yes"; else echo "applies=NO"; fi
/tmp/wt/run_tests.sh $wt | head -3
MPLBACKEND=Agg PYTHONPATH=$wt timeout 600 /venv/bin/python $demo >/dev/null 2>&1; echo "demo_patched_rc=$?"
git -C $wt checkout -q -- . ; git -C $wt clean -fdq
} > $out 2>&1
echo "$id $x: $(tr '\n' ' ' < $out)"
