#!/bin/bash
# usage: run_tests.sh <worktree>   -> prints how many of the 42 stable tests pass in that worktree
wt=$1
out=$(mktemp /tmp/wt_junit_XXXX.xml)
cd $wt && env -u PAPPULAB_LOCALCIDER_VERIF PYTHONPATH=$wt /venv/bin/python -m pytest -q -p no:cacheprovider --timeout=900 --continue-on-collection-errors --junitxml=$out localcider/tests >/dev/null 2>&1
/venv/bin/python - "$out" <<'PY'
import sys, xml.etree.ElementTree as ET
want=set(l.strip() for l in open('/tmp/wt/stable_tests.txt') if l.strip())
passed=set()
for tc in ET.parse(sys.argv[1]).iter('testcase'):
    if not any(ch.tag in ('failure','error','skipped') for ch in tc):
        passed.add(tc.get('classname')+'::'+tc.get('name'))
missing=sorted(want-passed)
print("stable tests passing: %d/%d"%(len(want&passed),len(want)))
for m in missing: print("  BROKEN:",m)
sys.exit(1 if missing else 0)
PY
rc=$?; rm -f $out; exit $rc
