#!/usr/bin/env python3
"""Regenerate the coverage table of DESIGN.md (between COVERAGE-TABLE markers).
quick numbers: /verif/evidence/*.json (written by the checks in /verif against /repo);
thorough numbers: evidence files of a background `vp run` snapshot given as argv[1] (informational)."""
import json, glob, os, sys
th_dir = sys.argv[1] if len(sys.argv) > 1 else None
rows = []
for f in sorted(glob.glob("/verif/evidence/C*.json")):
    q = json.load(open(f))
    c = q["coverage"]
    t = None
    if th_dir and os.path.exists(os.path.join(th_dir, os.path.basename(f))):
        t = json.load(open(os.path.join(th_dir, os.path.basename(f))))
        if t.get("tier") != "thorough":
            t = None
    def fmt(e):
        if e is None:
            return "-"
        cc = e["coverage"]
        return "%s / %s / %s (%.0fs)" % ("{:,}".format(cc["states"]), "{:,}".format(cc["transitions"]),
                                          "{:,}".format(cc["traces_validated_against_impl"]), e["wall_s"])
    rows.append("| %s | %s | %s | %s |" % (q["property_id"], fmt(q) if q["tier"] == "quick" else "-", fmt(t),
                                          ", ".join(c.get("known_findings_seen", [])[:2]) + (" ..." if len(c.get("known_findings_seen", [])) > 2 else "")))
tab = "| property | quick: states / transitions / lock-step traces (wall) | thorough (background run) | known findings seen |\n|---|---|---|---|\n" + "\n".join(rows)
p = "/verif/DESIGN.md"
s = open(p).read()
a, b = "<!-- COVERAGE-TABLE-BEGIN -->", "<!-- COVERAGE-TABLE-END -->"
if a in s:
    s = s[:s.index(a) + len(a)] + "\n" + tab + "\n" + s[s.index(b):]
    open(p, "w").write(s)
print(tab)
