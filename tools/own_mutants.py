#!/usr/bin/env python3
"""Apply each of the hand-written DESIGN section-4 mutants to /repo (one at a time), run the named quick checks, revert.

usage: own_mutants.py [--tests] [name-substring]
Prints one line per (mutant, check): DETECTED / MISSED.  --tests also runs the 42-test baseline on the mutant.
"""
import subprocess, sys, os, re

S = "localcider/backend/sequence.py"
W = "localcider/backend/wang_landau.py"
A = "localcider/backend/data/aminoacids.py"
C = "localcider/backend/sequenceComplexity.py"
P = "localcider/backend/seqfileparser.py"
PL = "localcider/backend/plotting.py"
SPM = "localcider/sequenceParameters.py"

M = [
 ("C01-clamp-widened", S, "if kappaVal > 1.0 and kappaVal < 1.1:", "if kappaVal > 1.0 and kappaVal < 1.25:", ["C01"]),
 ("C01-return-0", S, "            return -1\n        else:\n\n            kappaVal", "            return 0\n        else:\n\n            kappaVal", ["C01"]),
 ("C01-clamp-always", S, "                return kappaVal\n\n    #...................................................................................#\n    def Omega(self):", "                return min(kappaVal, 1.0)\n\n    #...................................................................................#\n    def Omega(self):", ["C01"]),
 ("C02-blob7", S, "return (self.deltaForm(5) + self.deltaForm(6)) / 2", "return (self.deltaForm(5) + self.deltaForm(7)) / 2", ["C02", "C10"]),
 ("C02-lastblob", S, "        for i in range(0, nblobs):\n\n            # get the blob charge pattern list", "        for i in range(0, max(nblobs - 1, 1)):\n\n            # get the blob charge pattern list", ["C02", "C05"]),
 ("C02-bneg-le0", S, "            bneg = np.where(blob < 0)[0].size", "            bneg = np.where(blob <= 0)[0].size", ["C02"]),
 ("C02-R-neutral", A, "             'ARG': 1}", "             'ARG': 0}", ["C02", "C04", "C05"]),
 ("C03-range6", S, "for startNeuts in range(0, 7):", "for startNeuts in range(0, 6):", ["C03"]),
 ("C03-gt18", S, "elif(self.countNeut() >= 18):", "elif(self.countNeut() > 18):", ["C03"]),
 ("C03-perm-neut-for-pos", S, "          outSeq += str(posRes[pos_counter])\n          pos_counter += 1", "          outSeq += str(posRes[-1 - pos_counter])\n          pos_counter += 1", ["C03"]),
 ("C04-W-KD", A, "             'TRP': -0.9,", "             'TRP': -0.8,", ["C04"]),
 ("C04-MW-water", S, "total = total - (18.0 * ( len(self.seq)-1 ))", "total = total - (18.02 * ( len(self.seq)-1 ))", ["C04"]),
 ("C04-H-not-disorder", S, "D = ['T', 'A', 'G', 'R', 'D', 'H', 'Q', 'K', 'S', 'E', 'P']", "D = ['T', 'A', 'G', 'R', 'D', 'Q', 'K', 'S', 'E', 'P']", ["C04"]),
 ("C05-SCD-mplusn", S, "np.power((m-n),0.5)", "np.power((m+n),0.5)", ["C05", "C07"]),
 ("C06-omega-no-P", S, "            if res == 'P' or res =='E' or res =='D' or res =='K' or res =='R': \n                newseq=newseq+'E'", "            if res =='E' or res =='D' or res =='K' or res =='R': \n                newseq=newseq+'E'", ["C06"]),
 ("C06-no-upper", S, "localgrp = set([x.upper() for x in localgrp])", "localgrp = set([x + '' for x in localgrp])", ["C06"]),
 ("C07-exp1", S, "np.power((m-n),0.5)", "np.power((m-n),1.0)", ["C07"]),
 ("C07-divlen-1", S, "        return total/self.len\n", "        return total/max(self.len-1, 1)\n", ["C07"]),
 ("C08-lt35", S, "elif(fcr >= .25 and fcr <= .35):", "elif(fcr >= .25 and fcr < .35):", ["C08", "C19"]),
 ("C08-abs-le", S, "elif(fcr > .35 and abs(ncpr) < 0.35):", "elif(fcr > .35 and abs(ncpr) <= 0.35):", ["C08", "C19"]),
 ("C09-pKa-C", A, "    return {'C': 8.5,", "    return {'C': 8.3,", ["C09"]),
 ("C09-threshold", S, "threshold=0.02 # error threshold", "threshold=0.2 # error threshold", ["C09"]),
 ("C09-widen-wrong-end", S, "                if protein_charge > 0:\n                    max_pH=max_pH + 1\n                else:\n                    min_pH=min_pH - 1", "                if protein_charge > 0:\n                    min_pH=min_pH - 1\n                else:\n                    max_pH=max_pH + 1", ["C09"]),
 ("C10-hydro-0-9", S, "        KDU = aminoacids.get_KD_uversky()\n\n        hydrochain = []", "        KDU = aminoacids.get_KD_shifted()\n\n        hydrochain = []", ["C10"]),
 ("C11-lt-window", C, "        while (step <= len(sequence) - windowSize):\n\n            # restart complexity calculation for this window\n            CWF = 0", "        while (step < len(sequence) - windowSize):\n\n            # restart complexity calculation for this window\n            CWF = 0", ["C11"]),
 ("C11-log-e", C, "CWF = p * (math.log(p, len(alphabet))) + CWF", "CWF = p * (math.log(p) / math.log(20)) + CWF", ["C11"]),
 ("C12-C-to-LVIM-6", C, "                if x in ('L', 'V', 'I', 'M'):\n                    aa.append('L')\n                elif x in ('A', 'S', 'G', 'T'):\n                    aa.append('A')\n                elif x in ('P', 'H', 'C'):", "                if x in ('L', 'V', 'I', 'M', 'C'):\n                    aa.append('L')\n                elif x in ('A', 'S', 'G', 'T'):\n                    aa.append('A')\n                elif x in ('P', 'H', 'C'):", ["C12", "C11"]),
 ("C13-len-raw", S, "        self.seq = seq.upper()\n        self.len = len(seq)", "        self.seq = seq.upper()\n        self.len = len(seq) if not validateSeq else self.len_raw", None),
 ("C14-star-mid", P, "        if seq[-1] == \"*\":\n            return seq[0:-1]", "        if seq[-1] == \"*\" or True:\n            return seq.replace('*', '')", ["C14"]),
 ("C14-lower", P, "            if i not in list(ONE_TO_THREE.keys()):", "            if i.upper() not in list(ONE_TO_THREE.keys()):", ["C14"]),
 ("C16-no-dedupe", S, "                if idx in self.phosphosites:\n                    # don't add the same residue twice, but no need to warn\n                    # about it\n                    pass\n                else:", "                if False:\n                    pass\n                else:", ["C16"]),
 ("C16-D-not-E", S, "                pseq = pseq + \"E\"", "                pseq = pseq + \"D\"", ["C16"]),
 ("C17-shuffle-frozen-on-new", S, "        for i in range(0, self.len):\n            if i in frozen:\n                new_seq.append(lookup[i])", "        for i in range(0, self.len):\n            if i in frozen and i != self.len - 1:\n                new_seq.append(lookup[i])", ["C17"]),
 ("C17-swapRes-no-copy", S, "tempChargeSeq = cp.deepcopy(self.chargePattern)", "tempChargeSeq = self.chargePattern", ["C17"]),
 ("C20-block8", S, "if(np.mod(count, 10) == 0):", "if(np.mod(count, 8) == 0):", ["C20"]),
 ("C20-commit-before-validate", S, "        valid = {}\n\n        # for each one letter amino acid code", "        valid = {}\n        self.aminoAcidColorMap = {} if not hasattr(self, 'aminoAcidColorMap') else self.aminoAcidColorMap\n        valid = self.aminoAcidColorMap\n\n        # for each one letter amino acid code", ["C20"]),
]


def sh(cmd):
    return subprocess.run(cmd, shell=True, capture_output=True, text=True)


def main():
    args = [a for a in sys.argv[1:] if not a.startswith("--")]
    run_tests = "--tests" in sys.argv
    assert sh("git -C /repo diff --quiet").returncode == 0, "/repo dirty"
    for name, path, old, new, checks in M:
        if args and not any(a in name for a in args):
            continue
        if checks is None:
            continue
        full = os.path.join("/repo", path)
        b = open(full, "rb").read()
        crlf = b"\r\n" in b
        o, n = (old.replace("\n", "\r\n"), new.replace("\n", "\r\n")) if crlf else (old, new)
        s = b.decode()
        if s.count(o) < 1:
            print("%-28s PATTERN NOT FOUND" % name)
            continue
        try:
            open(full, "wb").write(s.replace(o, n).encode())
            t = ""
            if run_tests:
                r = sh("/verif/tools/run_baseline.sh")
                t = " tests=" + ("42/42" if r.returncode == 0 else "BROKEN(%s)" % r.stdout.strip()[-60:])
            for c in checks:
                r = sh("cd /verif && ./check %s --tier quick" % c)
                det = r.returncode == 1 and "VIOLATION property=" in r.stdout
                first = [l for l in r.stdout.splitlines() if l.startswith("VIOLATION")][:1]
                print("%-28s %s %s%s  %s" % (name, c, "DETECTED" if det else "MISSED(rc=%d)" % r.returncode, t,
                                               first[0][first[0].find("#"):][:150] if first else r.stdout.strip().splitlines()[-1][:120]))
                sys.stdout.flush()
        finally:
            sh("git -C /repo checkout -- .")


if __name__ == "__main__":
    main()
