#!/bin/bash
# usage: eval_seeded.sh <patch file> <property id> [more ids...]
# Applies the patch to /repo, runs the quick check of each property, prints verdict lines, and ALWAYS reverts /repo.
patch=$1; shift
cd /verif || exit 2
if ! git -C /repo diff --quiet; then echo "refusing: /repo has uncommitted changes"; exit 2; fi
git -C /repo apply "$patch" || { echo "patch does not apply"; exit 2; }
trap 'git -C /repo checkout -- . ' EXIT
tier=${TIER:-quick}
for p in "$@"; do
  out=$(./check $p --tier $tier 2>&1)
  rc=$?
  nv=$(echo "$out" | grep -c '^VIOLATION')
  echo "== $p rc=$rc violations_printed=$nv :: $(echo "$out" | tail -1 | cut -c1-160)"
  echo "$out" | grep '^VIOLATION' | head -3 | cut -c1-330
done
